// C09: async_disconnect from every client state: DISCONNECT goes out first (after a write already in progress), alone and last
// on its connection, the operation ends within 5 s of virtual time, everything else is aborted, silence afterwards.
#include "w_client.hpp"
using namespace wc;
#ifndef VK_STEPS
#define VK_STEPS 4
#endif
#ifndef VK_CUT
#define VK_CUT 1
#endif

struct X {
  W w; int pre = 0; int disc = -1; uint8_t rc = 0; bool has_rs = false; uint8_t rs1 = 0; int64_t t0 = 0;
  int writes_at_call = 0; bool write_in_progress_at_call = false; int epoch_at_call = 0; int npk_at_call = 0;
  int attempts_after_done = -1; int writes_after_done = -1;
  bool disconnect_seen = false; int disconnect_pk = -1; bool inbound_sent = false;

  void on_packets(int from) {
    for (int i = from; i < w.npk; i++) {
      const pkt_rec& r = w.pk[i];
      if (disc < 0 || i < npk_at_call) continue;
      if (r.epoch == epoch_at_call && !disconnect_seen) {
        // packets of the write that was already in progress when async_disconnect was called may still arrive first
        if (write_in_progress_at_call && r.write_no == writes_at_call + 1) continue;
        if (r.type == ref::CONNECT) continue;      // the handshake of a connection that was being set up at the call
        vk_assert(r.type == ref::DISCONNECT, "a queued packet was written ahead of the DISCONNECT");
        ref::packet k; bool ok = w.redecode(r, k); vk_assert(ok, "harness: redecode");
        vk_assert(k.rc == rc, "DISCONNECT carries a different reason code than given");
        const ref::prop_t* p = k.props.find(0x1F);
        vk_assert((p != nullptr) == has_rs && (!p || (p->a.n == 2 && p->a.p[0] == 'r' && p->a.p[1] == rs1)) && k.props.n == (has_rs ? 1 : 0), "DISCONNECT carries different properties than given");
        // alone in its write: no other packet shares the gather-write
        for (int j = 0; j < w.npk; j++) if (j != i && w.pk[j].epoch == r.epoch && w.pk[j].write_no == r.write_no) vk_assert(false, "DISCONNECT was not written on its own");
        disconnect_seen = true; disconnect_pk = i; vk_reach("disconnect-on-wire");
      } else if (r.epoch == epoch_at_call && disconnect_seen) {
        vk_assert(false, "a packet followed the DISCONNECT on the same connection");
      }
    }
  }
  void finish(vk::sock_rec* s) { int b = w.npk; w.finish_write(s, s->wdata.size(), {}); vk::drain(); on_packets(b); }
  void check() {
    for (int i = 0; i < w.nops; i++) { vk_assert(w.ops[i].done <= 1, "completion handler invoked more than once"); }
    if (disc >= 0 && w.ops[disc].done) {
      vk_assert(w.ops[disc].t_done - t0 <= 5000, "async_disconnect took longer than 5 s");
      vk::drain();
      for (int i = 0; i < w.nops; i++) if (i != disc) { vk_assert(w.ops[i].done == 1, "an operation is still outstanding after async_disconnect finished"); vk_assert(w.ops[i].ec == 125 || w.ops[i].t_done <= t0 || w.ops[i].ec == 0, "another operation did not end with operation_aborted"); }
      vk_assert(w.run_done == 1, "async_run did not complete after async_disconnect finished");
      if (attempts_after_done < 0) { attempts_after_done = vk::world().connect_attempts; writes_after_done = vk::world().writes_started; }
      vk_assert(vk::world().connect_attempts == attempts_after_done, "the client opened a connection after async_disconnect finished");
      vk_assert(vk::world().writes_started == writes_after_done, "the client wrote after async_disconnect finished");
      vk_assert(!vk::pending_resolve() && !vk::pending_connect(), "a connection attempt is in progress after async_disconnect finished");
      vk_reach("finished");
    }
  }
};

extern "C" void h_disc(void) {
  X* x = new X(); W& w = x->w;
  x->pre = vk_choose(7);
  w.start();
  if (x->pre == 5) { w.publish<qos_e::at_least_once>("t", "A"); vk::drain(); }                                        // never connected, a request already queued
  if (x->pre >= 1 && x->pre <= 4) {
    uint8_t props[3] = {0x21, 0, 1};
    bool ok = w.establish(); vk_assert(ok, "first connection"); w.send_connack(false, 0, props, x->pre == 3 ? 3 : 0); w.feed_all(); vk::drain();
  }
  if (x->pre == 6) { bool ok = w.establish(); vk_assert(ok, "first connection"); }                                       // CONNECT written, CONNACK outstanding
  if (x->pre == 2) { w.publish<qos_e::at_least_once>("t", "A"); vk::drain(); }                                        // write in progress
  if (x->pre == 3) { w.publish<qos_e::at_least_once>("t", "A"); vk::drain(); auto* s = vk::pending_write(); x->finish(s); w.publish<qos_e::at_least_once>("t", "B"); vk::drain(); }   // one in flight, one throttled
  if (x->pre == 4) { w.publish<qos_e::at_least_once>("t", "A"); vk::drain(); w.publish<qos_e::at_most_once>("t", "B"); w.subscribe({{"f", subscribe_options{}}}); vk::drain(); }       // write in progress, two queued behind
  // ---- the call
  x->rc = vk_sym_u8(); vk_assume(x->rc == 0x00 || x->rc == 0x04 || (x->rc >= 0x80 && x->rc <= 0x83) || x->rc == 0x93 || x->rc == 0x98);
  x->has_rs = vk_choose(2); x->rs1 = x->has_rs ? vk_sym_u8() : 0; if (x->has_rs) vk_assume(x->rs1 >= 'a' && x->rs1 <= 'z');
  disconnect_props dp; if (x->has_rs) { std::string r = "r"; r.push_back((char)x->rs1); dp[prop::reason_string] = r; }
  x->t0 = vk_now_ms; x->writes_at_call = w.writes_completed; x->write_in_progress_at_call = vk::pending_write() != nullptr; x->epoch_at_call = w.epoch; x->npk_at_call = w.npk;
  x->disc = w.disconnect(disconnect_rc_e(x->rc), dp); vk::drain();
  x->check();
  for (int step = 0; step < VK_STEPS; step++) {
    uint32_t ev = vk_choose(6);
    switch (ev) {
      case 0: { auto* s = vk::pending_write(); if (!s) vk_assume(0); x->finish(s); break; }
      case 1: { auto* s = vk::pending_write(); if (!s) vk_assume(0); w.writes_completed++; vk::complete_write(s, 0, asio::error::connection_reset); vk::drain(); vk_reach("write-failed"); break; }
      case 2: { // any of the timers with the earliest deadline may fire first
                vk::timer_rec* can[4]; int n = 0; for (auto* t : vk::world().timers) if (t->armed && vk::timer_can_fire(t) && n < 4) can[n++] = t;
                if (!n) vk_assume(0); vk::timer_rec* best = can[n > 1 ? vk_choose(n) : 0]; if (n > 1) vk_reach("timers-tie");
                vk::timer_fire(best); vk::drain(); vk_reach("timer-fired"); break; }
      case 3: { if (w.ops[x->disc].done) vk_assume(0);
                if (auto* r = vk::pending_resolve()) { vk::complete_resolve(r, {}, 1); vk::drain(); }
                else if (auto* s = vk::pending_connect()) { vk::complete_connect(s, {}); w.new_connection(); x->epoch_at_call = w.epoch; vk::drain(); }
                else vk_assume(0);
                break; }
      case 4: { // the broker answers the CONNECT of a connection that was still being set up when async_disconnect was called
                if (w.ops[x->disc].done || w.connack_sent || w.count_of(ref::CONNECT, w.epoch) == 0 || !vk::pending_read()) vk_assume(0);
                int b = w.npk; w.send_connack(false, 0, nullptr, 0);
#if VK_CUT
                // the handlers this CONNACK queues may be interleaved with the next event (e.g. the 5 s timer of async_disconnect expiring
                // between the accepted CONNACK and the installation of the new stream): stop draining at any handler boundary
                bool cut = false;
                for (int g = 0; g < 8 && !cut && w.out_avail() && vk::pending_read(); g++) { w.feed(w.out_avail()); while (vk::world().q_head) { if (vk_choose(2)) { cut = true; break; } vk::run_one(); } }
                if (cut) vk_reach("connack-handlers-left-queued");
#else
                w.feed_all(); vk::drain();
#endif
                x->on_packets(b); vk_reach("connack-after-call"); break; }
      default: { // the broker sends a QoS 1 PUBLISH: the client queues a PUBACK behind whatever is already queued
                if (w.ops[x->disc].done || !w.connected() || x->inbound_sent) vk_assume(0); x->inbound_sent = true;
                w.publish_to_client("m", 1, "x", 1, 1, false, 9); w.feed_all(); vk::drain(); vk_reach("inbound-publish"); break; }
    }
    vk_event(10 + ev, vk_now_ms);
    if (all_quiet()) x->check();
  }
  vk::drain();
  // run down: let time pass until nothing is armed; the operation must have finished within its 5 s
  for (int g = 0; g < 8; g++) {
    vk::timer_rec* best = nullptr; for (auto* t : vk::world().timers) if (t->armed && vk::timer_can_fire(t)) { best = t; break; }
    if (!best) break; vk::timer_fire(best); vk::drain(); x->check();
  }
  vk_assert(w.ops[x->disc].done == 1, "async_disconnect never completed although 5 s of virtual time passed");
  x->check();
  if (x->pre == 0) vk_reach("never-connected");
  if (x->pre == 3) vk_reach("throttled-traffic");
  if (x->pre == 5) vk_reach("never-connected-with-queued-request");
  if (x->pre == 6) vk_reach("handshake-in-progress");
}
