// C14 (and the SUBSCRIBE/UNSUBSCRIBE part of C02): subscribe / unsubscribe on the real client against a broker model.
#include "w_client.hpp"
using namespace wc;
#ifndef VK_STEPS
#define VK_STEPS 5
#endif
#ifndef VK_UNSUB
#define VK_UNSUB 0          // 0: async_subscribe, 1: async_unsubscribe
#endif
#ifndef VK_DROP
#define VK_DROP 0            // how the connection dies: 0 reset, 1 eof / broken pipe, 2 aborted, 3 seen by the reader only (write in flight is aborted by the reconnect), 9 any of them (forked)
#endif
#ifndef VK_MODE
#define VK_MODE 14          // 14: verdict monitor, 2: no-loss monitor
#endif

struct ack_t { uint16_t pid; uint8_t codes[4]; int n; int epoch; int after_pk; bool valid; bool answers; bool consumed; };

struct X {
  W w;
  int op = -1; int ntopics = 0; uint8_t t1[2]; uint8_t opt[2]; bool has_id = false; uint32_t sub_id = 0; bool has_up = false; uint8_t upv = 0;
  ack_t acks[8]; int nacks = 0; int nreconn = 0, nbad = 0;
  static constexpr uint8_t REQ = VK_UNSUB ? ref::UNSUBSCRIBE : ref::SUBSCRIBE;
  static constexpr uint8_t ACK = VK_UNSUB ? ref::UNSUBACK : ref::SUBACK;

  void ev_request() {
    if (op >= 0) vk_assume(0);
    ntopics = 1 + vk_choose(2);
    for (int i = 0; i < ntopics; i++) {
      t1[i] = vk_sym_u8(); vk_assume(t1[i] >= 'a' && t1[i] <= 'z');
      opt[i] = vk_sym_u8(); vk_assume((opt[i] & 0xC0) == 0 && (opt[i] & 3) != 3 && ((opt[i] >> 4) & 3) != 3);
    }
    has_up = vk_choose(2); upv = has_up ? vk_sym_u8() : 0; if (has_up) vk_assume(upv >= 0x20 && upv < 0x7F && upv != '#' && upv != '+');
#if VK_UNSUB
    std::vector<std::string> topics; for (int i = 0; i < ntopics; i++) { std::string s = "f/"; s.push_back((char)t1[i]); topics.push_back(s); }
    unsubscribe_props pp; if (has_up) pp[prop::user_property].push_back({"k", std::string(1, (char)upv)});
    op = w.unsubscribe(topics, pp);
#else
    has_id = vk_choose(2); sub_id = has_id ? vk_sym_u32() : 0; if (has_id) vk_assume(sub_id >= 1 && sub_id <= 268435455u);
    std::vector<subscribe_topic> topics;
    for (int i = 0; i < ntopics; i++) {
      std::string s = "f/"; s.push_back((char)t1[i]);
      subscribe_options so; so.max_qos = qos_e(opt[i] & 3); so.no_local = no_local_e((opt[i] >> 2) & 1); so.retain_as_published = retain_as_published_e((opt[i] >> 3) & 1); so.retain_handling = retain_handling_e((opt[i] >> 4) & 3);
      topics.push_back({s, so});
    }
    subscribe_props pp; if (has_id) pp[prop::subscription_identifier] = (int32_t)sub_id; if (has_up) pp[prop::user_property].push_back({"k", std::string(1, (char)upv)});
    op = w.subscribe(topics, pp);
#endif
    vk::drain();
  }
  // the request as the broker decoded it equals what the caller asked for
  void check_request_on_wire(const pkt_rec& r) {
    ref::packet k; bool ok = w.redecode(r, k); vk_assert(ok, "harness: redecode");
    vk_assert(k.ntopics == ntopics, "request on the wire has a different number of topics");
    for (int i = 0; i < ntopics; i++) {
      vk_assert(k.topics[i].n == 3 && k.topics[i].p[0] == 'f' && k.topics[i].p[1] == '/' && k.topics[i].p[2] == t1[i], "request on the wire has a different topic filter");
#if !VK_UNSUB
      vk_assert(k.opts[i] == opt[i], "SUBSCRIBE on the wire has different subscription options");
#endif
    }
    const ref::prop_t* id = k.props.find(0x0B); const ref::prop_t* up = k.props.find(0x26);
    vk_assert((id != nullptr) == has_id && (!id || id->num == sub_id), "request on the wire has a different Subscription Identifier");
    vk_assert((up != nullptr) == has_up && (!up || (up->a.n == 1 && up->a.p[0] == 'k' && up->b.n == 1 && up->b.p[0] == upv)), "request on the wire has a different User Property");
    vk_assert(k.props.n == (has_id ? 1 : 0) + (has_up ? 1 : 0), "request on the wire carries properties that were not requested");
  }
  const pkt_rec* owed() {
    for (int i = 0; i < w.npk; i++) {
      const pkt_rec& r = w.pk[i]; if (r.epoch != w.epoch || r.type != REQ) continue;
      bool answered = false; for (int a = 0; a < nacks; a++) if (acks[a].epoch == w.epoch && acks[a].answers && acks[a].pid == r.pid && acks[a].after_pk > i) answered = true;
      if (!answered) return &r;
    }
    return nullptr;
  }
  void send_ack(uint16_t pid, const uint8_t* codes, int n, bool valid, bool answers) {
    vk_assert(nacks < 8, "harness: ack capacity"); ack_t& a = acks[nacks++]; a.pid = pid; a.n = n; for (int i = 0; i < n && i < 4; i++) a.codes[i] = codes[i];
    a.epoch = w.epoch; a.after_pk = w.npk; a.valid = valid; a.answers = answers; a.consumed = false;
    w.suback(ACK, pid, codes, n);
  }
  void deliver(int chunk) {
    if (chunk == 1 && w.out_avail() > 1) { w.feed(1); vk::drain(); }
    w.feed_all(); vk::drain();
    for (int a = 0; a < nacks; a++) if (acks[a].epoch == w.epoch) acks[a].consumed = true;
  }
  uint8_t listed_code(int which) {
#if VK_UNSUB
    static const uint8_t c[] = {0x00, 0x11, 0x80, 0x87, 0x8F};
#else
    static const uint8_t c[] = {0x00, 0x01, 0x02, 0x80, 0x8F};
#endif
    return c[which];
  }
  void ev_correct_ack() {
    const pkt_rec* r = owed(); if (!r || !w.connected()) vk_assume(0);
    uint8_t codes[2]; for (int i = 0; i < ntopics; i++) codes[i] = listed_code(vk_choose(5));
    send_ack(r->pid, codes, ntopics, true, true); deliver(vk_choose(2)); vk_reach("acked");
  }
  void ev_bad_ack() {
    const pkt_rec* r = owed(); if (!r || !w.connected() || nbad >= 1) vk_assume(0);
    nbad++; uint8_t codes[4] = {0, 0, 0, 0};
    switch (vk_choose(5)) {
      case 0: send_ack(r->pid, codes, ntopics + 1, false, true); break;                                   // one code too many
      case 1: if (ntopics < 2) vk_assume(0); send_ack(r->pid, codes, ntopics - 1, false, true); break;    // one code too few
      case 2: { codes[0] = vk_sym_u8(); vk_assume(!ref::rc_listed(ACK, codes[0])); send_ack(r->pid, codes, ntopics, false, true); break; }   // inadmissible code
      case 3: { // right number of admissible codes plus an inadmissible one in between
                codes[1] = vk_sym_u8(); vk_assume(!ref::rc_listed(ACK, codes[1])); codes[2] = 0; send_ack(r->pid, codes, ntopics + 1, false, true); break; }
      default: send_ack((uint16_t)(r->pid + 5), codes, ntopics, false, false); break;                       // identifier nobody uses
    }
    deliver(0); vk_reach("bad-ack");
  }
  void ev_reconnect() {
    if (w.connected()) { if (nreconn >= 1) vk_assume(0); nreconn++; w.drop_connection_any(VK_DROP); vk::drain(); }
    else if (!w.attempt_in_progress()) vk_assume(0);
    bool ok = w.establish(); vk_assert(ok, "the client reconnects after a connection loss");
    w.send_connack(true, 0, nullptr, 0); w.feed_all(); vk::drain(); vk_reach("reconnected");
  }
  void ev_write_done() {
    auto* s = vk::pending_write(); if (!s) vk_assume(0);
    int before = w.npk; w.finish_write(s, s->wdata.size(), {}); vk::drain();
    for (int i = before; i < w.npk; i++) if (w.pk[i].type == REQ) { check_request_on_wire(w.pk[i]); vk_reach("request-on-wire"); }
  }
  void check_completion() {
    if (op < 0) return; const op_rec& o = w.ops[op];
    vk_assert(o.done <= 1, "completion handler invoked more than once");
    if (!o.done) return;
    vk_assert(o.nrcs == ntopics, "handler received a different number of reason codes than topics requested");
#if VK_MODE == 2
    vk_assert(o.ec == 0, "an accepted, un-cancelled request completed with an error");
#endif
    if (o.ec != 0) return;
    // success: a valid acknowledgement for the request's packet id was sent after the broker had received the request, and the codes are its codes
    bool found = false;
    for (int a = 0; a < nacks && !found; a++) {
      const ack_t& k = acks[a]; if (!k.valid || !k.consumed || k.n != ntopics) continue;
      bool seen = false; for (int j = 0; j < k.after_pk && j < w.npk; j++) if (w.pk[j].epoch == k.epoch && w.pk[j].type == REQ && w.pk[j].pid == k.pid) seen = true;
      bool same = true; for (int i = 0; i < ntopics; i++) if (o.rcs[i] != k.codes[i]) same = false;
      if (seen && same) found = true;
    }
    vk_assert(found, "request completed successfully without a well-formed acknowledgement carrying exactly these reason codes for its packet id");
    vk_reach("success-checked");
  }
};

extern "C" void h_sub(void) {
  X* x = new X(); W& w = x->w;
  w.start(); w.connect_ok();
  for (int step = 0; step < VK_STEPS; step++) {
    uint32_t ev = vk_choose(5);
    switch (ev) {
      case 0: x->ev_request(); break;
      case 1: x->ev_write_done(); break;
      case 2: x->ev_correct_ack(); break;
      case 3: x->ev_bad_ack(); break;
      default: x->ev_reconnect(); break;
    }
    vk_event(10 + ev, w.npk);
    x->check_completion();
  }
#if VK_MODE == 2
  for (int round = 0; round < 10; round++) {
    bool progress = false;
    if (!w.connected() && !vk::pending_write() && w.attempt_in_progress()) { if (w.establish()) { w.send_connack(true, 0, nullptr, 0); w.feed_all(); vk::drain(); progress = true; } }
    if (auto* s = vk::pending_write()) { w.finish_write(s, s->wdata.size(), {}); vk::drain(); progress = true; }
    while (const pkt_rec* r = x->owed()) { if (!w.connected()) break; uint8_t codes[2] = {0, 0}; x->send_ack(r->pid, codes, x->ntopics, true, true); x->deliver(0); progress = true; }
    if (!progress) break;
  }
  x->check_completion();
  if (x->op >= 0) { vk_assert(w.ops[x->op].done == 1, "an accepted request never completed although the broker stayed reachable and answered everything"); vk_reach("request-completed"); }
#endif
}

// Two requests in a row over one guided schedule with forks at the decisive points: an acknowledgement that overtakes the write
// completion of its request and is orphaned by a connection loss, an acknowledgement sent twice, an unsolicited one - followed by
// a second request, which reuses the packet identifier. No request may complete with a verdict the broker sent before it had
// received that very request.
struct S2 {
  W w; int op[2] = {-1, -1};
  struct sent_t { uint16_t pid; uint8_t code; int epoch; int after_pk; } sent[8]; int nsent = 0;
  static constexpr uint8_t REQ = X::REQ, ACK = X::ACK;
  static uint8_t code_of(int which) {
#if VK_UNSUB
    static const uint8_t c[] = {0x00, 0x11, 0x87};
#else
    static const uint8_t c[] = {0x00, 0x01, 0x87};
#endif
    return c[which];
  }
  int request(int i) {
    std::string t = "f/"; t.push_back((char)('a' + i));
#if VK_UNSUB
    op[i] = w.unsubscribe({t});
#else
    op[i] = w.subscribe({{t, subscribe_options{}}});
#endif
    vk::drain(); return op[i];
  }
  // which request a packet on the wire belongs to (by its topic filter)
  int req_of(const pkt_rec& r) { ref::packet k; if (r.type != REQ || r.epoch != w.epoch || !w.redecode(r, k) || k.ntopics != 1 || k.topics[0].n != 3) return -1; return k.topics[0].p[2] - 'a'; }
  int stamp_from = 0;
  void stamp() { for (int i = stamp_from; i < w.npk; i++) w.pk[i].aux = req_of(w.pk[i]); stamp_from = w.npk; }
  void ack(uint16_t pid, uint8_t code) { vk_assert(nsent < 8, "harness: capacity"); sent[nsent++] = sent_t{pid, code, w.epoch, w.npk}; w.suback(ACK, pid, &code, 1); w.feed_all(); vk::drain(); }
  uint16_t last_pid(int i) { for (int j = w.npk - 1; j >= 0; j--) if (w.pk[j].type == REQ && w.pk[j].aux == i) return w.pk[j].pid; return 0; }
  void check() {
    for (int i = 0; i < 2; i++) {
      if (op[i] < 0) continue; const op_rec& o = w.ops[op[i]];
      vk_assert(o.done <= 1, "completion handler invoked more than once");
      if (!o.done || o.ec != 0) continue;
      vk_assert(o.nrcs == 1, "handler received a different number of reason codes than topics requested");
      bool found = false;
      for (int a = 0; a < nsent && !found; a++) {
        bool seen = false; for (int j = 0; j < sent[a].after_pk && j < w.npk; j++) if (w.pk[j].type == REQ && w.pk[j].epoch == sent[a].epoch && w.pk[j].pid == sent[a].pid && w.pk[j].aux == i) seen = true;
        if (seen && o.rcs[0] == sent[a].code) found = true;
      }
      vk_assert(found, "request completed with a verdict the broker had not sent for this request (an acknowledgement for an earlier request or connection was used)");
      vk_reach(i == 0 ? "first-checked" : "second-checked");
    }
  }
  void write_done() { if (auto* s = vk::pending_write()) { w.finish_write(s, s->wdata.size(), {}); vk::drain(); stamp(); } }
};
extern "C" void h_sub_stale(void) {
  S2* x = new S2(); W& w = x->w;
  w.start(); w.connect_ok(); x->stamp();
  x->request(0);
  auto* s = vk::pending_write(); vk_assert(s != nullptr, "harness: request is being written");
  uint8_t c1 = S2::code_of(vk_choose(3)), c2 = S2::code_of(vk_choose(3)), c3 = S2::code_of(vk_choose(3));
  int variant = vk_choose(3);
  if (variant == 0) {
    // the broker has the request and answers before the client sees its write complete; then the connection dies
    w.deliver_early(s); x->stamp(); x->ack(x->last_pid(0), c1);
    int how = vk_choose(3);
    if (how == 0) w.drop_connection(); else if (how == 1) w.drop_connection_any(3); else { w.lose_write(s); vk::drain(); x->check(); w.drop_connection(); }
    vk::drain(); x->check();
    bool ok = w.establish(); vk_assert(ok, "the client reconnects after a connection loss"); w.send_connack(true, 0, nullptr, 0); w.feed_all(); vk::drain(); x->stamp();
    x->write_done(); x->check();
    // the broker answers the retransmitted request (if there is one) with its verdict of now
    if (!w.ops[x->op[0]].done) { vk_assert(x->last_pid(0) != 0, "an un-acknowledged request is retransmitted on the new connection"); x->ack(x->last_pid(0), c2); vk_reach("retransmission-answered"); }
    else if (x->last_pid(0)) x->ack(x->last_pid(0), c2);
    x->check(); vk_reach("ack-orphaned-by-loss");
  } else if (variant == 1) {
    // the acknowledgement arrives twice
    x->write_done(); uint16_t pid = x->last_pid(0); x->ack(pid, c1); x->check(); x->ack(pid, c2); x->check(); vk_reach("ack-repeated");
  } else {
    // an acknowledgement nobody asked for, bearing the identifier the next request will get, arrives after the exchange is over
    x->write_done(); uint16_t pid = x->last_pid(0); x->ack(pid, c1); x->check();
    vk_assert(w.ops[x->op[0]].done == 1, "request completes once acknowledged");
    x->ack(pid, c2); vk_reach("ack-unsolicited");
  }
  // the second request (it gets the identifier the first one released)
  x->request(1); x->write_done(); x->check();
  if (w.ops[x->op[1]].done && w.ops[x->op[1]].ec == 0) vk_reach("second-completed-early");
  if (!w.ops[x->op[1]].done) { vk_assert(x->last_pid(1) != 0, "second request is written"); x->ack(x->last_pid(1), c3); }
  x->check();
  vk_assert(w.ops[x->op[1]].done == 1, "second request completes once acknowledged");
  vk_event(20, variant);
}
