// C07: Receive Maximum is never exceeded; throttled messages go out as soon as quota is available.
// The real client, a symbolic Receive Maximum per connection, publishes / write completions / acks / per-operation
// cancellation / reconnect in any order (bounded number of steps).
#include "w_client.hpp"
using namespace wc;
#ifndef VK_STEPS
#define VK_STEPS 6
#endif
#ifndef VK_PUBS
#define VK_PUBS 3
#endif

struct M {
  W w;
  uint16_t rm = 0;                    // Receive Maximum of the current connection
  uint16_t acked[8]; int acked_upto[8]; int nacked = 0;  // (pid, packet-log watermark) the broker acknowledged on the current connection
  int npub = 0, ncancel = 0, nreconn = 0, nrejected = 0; uint16_t rec_pid[8]; int rec_epoch[8]; int nrec = 0;
  bool is_acked(uint16_t pid, int idx) const { for (int i = 0; i < nacked; i++) if (acked[i] == pid && idx < acked_upto[i]) return true; return false; }
  // QoS>0 PUBLISH packets handed to the stream on this connection and not yet acknowledged by the broker
  int inflight(uint16_t* oldest = nullptr) {
    uint16_t seen[16]; int ns = 0;
    auto add = [&](uint16_t pid) { for (int i = 0; i < ns; i++) if (seen[i] == pid) return; if (ns < 16) seen[ns++] = pid; };
    for (int i = 0; i < w.npk; i++) if (w.pk[i].epoch == w.epoch && ((w.pk[i].type == ref::PUBLISH && w.pk[i].qos > 0) || w.pk[i].type == ref::PUBREL) && !is_acked(w.pk[i].pid, i)) add(w.pk[i].pid);
    if (oldest) *oldest = ns ? seen[0] : 0;
    if (auto* s = vk::pending_write()) {          // packets inside a write in progress count as sent
      const uint8_t* p = reinterpret_cast<const uint8_t*>(s->wdata.data()); size_t n = s->wdata.size(), i = 0;
      while (i < n) { ref::packet k; if (ref::decode(p + i, n - i, k) != ref::OK) break; if ((k.type == ref::PUBLISH && k.qos > 0) || k.type == ref::PUBREL) add(k.pid); i += k.total; }
    }
    return ns;
  }
  void connack_rm() {
    rm = vk_sym_u16(); vk_assume(rm >= 1 && rm <= 65534);
    uint8_t props[3] = {0x21, (uint8_t)(rm >> 8), (uint8_t)(rm & 0xFF)};
    w.send_connack(false, 0, props, 3); w.feed_all(); vk::drain();
    nacked = 0;
  }
  void check(const char* when) {
    int inf = inflight();
    vk_assert(inf <= (int)rm, "more QoS>0 PUBLISH packets in flight than the Receive Maximum of this connection");
    if (inf > 1) vk_reach("two-in-flight");
    int undone = 0; for (int i = 0; i < w.nops; i++) if (w.ops[i].kind <= 2 && w.ops[i].kind >= 1 && !w.ops[i].done) undone++;
    if (!vk::pending_write() && w.connected() && undone > inf && inf < (int)rm)
      vk_assert(false, "a throttled PUBLISH stays queued although quota is available and no write is in progress");
    (void)when;
  }
};

extern "C" void h_c07(void) {
  M* m = new M(); W& w = m->w;
  w.start(); bool ok = w.establish(); vk_assert(ok, "first connection attempt");
  m->connack_rm();
  for (int step = 0; step < VK_STEPS; step++) {
    uint32_t ev = vk_choose(6);
    switch (ev) {
      case 0: { if (m->npub >= VK_PUBS) vk_assume(0); m->npub++; if (vk_choose(2)) w.publish<qos_e::at_least_once>("t", "p"); else { w.publish<qos_e::exactly_once>("t", "p"); vk_reach("qos2-publish"); } vk::drain(); break; }
      case 1: { auto* s = vk::pending_write(); if (!s) vk_assume(0); w.finish_write(s, s->wdata.size(), {}); vk::drain(); break; }
      case 2: { uint16_t pid = 0; m->inflight(&pid); if (pid == 0 || vk::pending_write() || !w.connected()) vk_assume(0);
                // what the broker has of this exchange on this connection: PUBLISH (QoS 1 / 2), PUBREC already sent, PUBREL received
                int qos = 0; bool rel = false, rec_sent = false;
                for (int i = 0; i < w.npk; i++) if (w.pk[i].epoch == w.epoch && w.pk[i].pid == pid && !m->is_acked(pid, i)) { if (w.pk[i].type == ref::PUBLISH) qos = w.pk[i].qos; if (w.pk[i].type == ref::PUBREL) rel = true; }
                for (int i = 0; i < m->nrec; i++) if (m->rec_pid[i] == pid && m->rec_epoch[i] == w.epoch) rec_sent = true;
                if (!qos && !rel) vk_assume(0);
                if (qos == 1) { m->acked[m->nacked] = pid; m->acked_upto[m->nacked++] = w.npk; w.ack(ref::PUBACK, pid); }
                else if (rel) { m->acked[m->nacked] = pid; m->acked_upto[m->nacked++] = w.npk; w.ack(ref::PUBCOMP, pid); vk_reach("pubcomp"); }
                else if (!rec_sent) {
                  bool failing = vk_choose(2); m->rec_pid[m->nrec] = pid; m->rec_epoch[m->nrec++] = w.epoch;
                  if (failing) { m->acked[m->nacked] = pid; m->acked_upto[m->nacked++] = w.npk; w.ack(ref::PUBREC, pid, 0x97, 1); vk_reach("failing-pubrec"); }    // a failing PUBREC completes the exchange
                  else w.ack(ref::PUBREC, pid, 0, 1);
                } else vk_assume(0);        // PUBREC sent, waiting for the client's PUBREL
                w.feed_all(); vk::drain(); vk_reach("acked"); break; }
      case 3: { if (m->ncancel >= 1) vk_assume(0); int j = -1; for (int i = 0; i < w.nops; i++) if (!w.ops[i].done) { j = i; break; } if (j < 0) vk_assume(0);
                m->ncancel++; w.cancel_op(j); vk::drain(); break; }
      case 5: { // a request that validation rejects (wildcard in a topic name) consumes no quota and must not return any
                if (m->nrejected >= 1) vk_assume(0); m->nrejected++;
                int a = vk_choose(2) ? w.publish<qos_e::at_least_once>("t/#", "p") : w.publish<qos_e::exactly_once>("t/#", "p"); vk::drain();
                vk_assert(w.ops[a].done == 1 && w.ops[a].ec != 0, "a publish with a wildcard in its topic name is rejected at once"); vk_reach("rejected-request"); break; }
      default: { if (m->nreconn >= 1 || !w.connected()) vk_assume(0); m->nreconn++;
                w.drop_connection(); vk::drain(); bool ok2 = w.establish(); vk_assert(ok2, "client reconnects after a connection loss");
                m->connack_rm(); vk_reach("reconnected"); break; }
    }
    vk_event(10 + ev, m->inflight());
    m->check("step");
  }
  int done = 0; for (int i = 0; i < w.nops; i++) done += w.ops[i].done;
  if (done) vk_reach("a-publish-completed");
}
