// C17: every encoder against the strict reference decoder.  C18: reference-encoded well-formed packets through every decoder,
// and back through the encoder. Fields are symbolic; the shape (which properties, which short form, which length class) forks.
#include "vk_api.h"
#include "ref_mqtt.hpp"
#include <boost/mqtt5/impl/codecs/message_encoders.hpp>
#include <boost/mqtt5/impl/codecs/message_decoders.hpp>
#include <cstdlib>
template class std::basic_string<char>;
using namespace boost::mqtt5;
namespace enc = boost::mqtt5::encoders; namespace dec = boost::mqtt5::decoders;
#ifndef VK_NPROPS
#define VK_NPROPS 2          // properties set at once
#endif

struct exp_prop { uint8_t id; uint32_t num; uint8_t a[2], b[2]; int na, nb; };
struct expect { exp_prop v[6]; int n = 0; };

template <class T> struct is_opt : std::false_type {}; template <class T> struct is_opt<std::optional<T>> : std::true_type {};
// give property `val` (identifier id) a symbolic value and remember what to expect on the wire
template <class V> static void fill(uint8_t id, V& val, expect& e) {
  exp_prop& x = e.v[e.n++]; x.id = id; x.num = 0; x.na = x.nb = 0;
  if constexpr (std::is_same_v<V, std::optional<uint8_t>>) { uint8_t s = vk_sym_u8(); val = s; x.num = s; }
  else if constexpr (std::is_same_v<V, std::optional<uint16_t>>) { uint16_t s = vk_sym_u16(); val = s; x.num = s; }
  else if constexpr (std::is_same_v<V, std::optional<uint32_t>>) { uint32_t s = vk_sym_u32(); val = s; x.num = s; }
  else if constexpr (std::is_same_v<V, std::optional<std::string>>) { x.na = vk_choose(2) ? 2 : 0; x.a[0] = 's'; x.a[1] = vk_sym_u8(); val = x.na ? std::string{(char)x.a[0], (char)x.a[1]} : std::string(); }
  else if constexpr (std::is_same_v<V, prop::subscription_identifiers>) { uint32_t s = vk_sym_u32(); vk_assume(s >= 1 && s <= 268435455u); val.push_back((int32_t)s); x.num = s; }
  else {
    x.na = 1; x.a[0] = 'k'; x.nb = 2; x.b[0] = 'v'; x.b[1] = vk_sym_u8(); val.push_back({std::string(1, 'k'), std::string{(char)x.b[0], (char)x.b[1]}});
    if (vk_choose(2)) { exp_prop& y = e.v[e.n++]; y.id = id; y.num = 0; y.na = 1; y.a[0] = 'l'; y.nb = 0; val.push_back({std::string(1, 'l'), std::string()}); }   // a second User Property with an empty value
  }
}
template <class Props> static int count_props() { int n = 0; Props p; p.visit([&](auto, auto&) { n++; return true; }); return n; }
// choose up to VK_NPROPS distinct properties of Props (by position) and fill them
template <class Props> static void choose_props(Props& p, expect& e) {
  int total = count_props<Props>(); int last = -1;
  for (int k = 0; k < VK_NPROPS; k++) {
    int pick = (int)vk_choose(total - last);          // last+1 .. total  (total = none)
    int nth = last + 1 + pick; if (nth >= total) break;
    int idx = 0; p.visit([&](auto id, auto& val) { if (idx++ == nth) fill((uint8_t)id, val, e); return true; });
    last = nth;
  }
}
static void eq_bytes(ref::str s, const uint8_t* b, int n, const char* msg) { vk_assert((int)s.n == n, msg); for (int i = 0; i < n && i < (int)s.n; i++) vk_assert(s.p[i] == b[i], msg); }
// the reference decoder found exactly the expected properties
static void check_props(const ref::props_t& got, const expect& e, const char* what) {
  vk_assert(got.n == e.n, what);
  for (int i = 0; i < e.n; i++) {
    int nth = 0; for (int j = 0; j < i; j++) if (e.v[j].id == e.v[i].id) nth++;
    const ref::prop_t* p = got.find(e.v[i].id, nth); vk_assert(p != nullptr, what); if (!p) continue;
    ref::pkind k = ref::prop_kind(e.v[i].id);
    if (k == ref::K_STR || k == ref::K_BIN) eq_bytes(p->a, e.v[i].a, e.v[i].na, what);
    else if (k == ref::K_PAIR) { eq_bytes(p->a, e.v[i].a, e.v[i].na, what); eq_bytes(p->b, e.v[i].b, e.v[i].nb, what); }
    else vk_assert(p->num == e.v[i].num, what);
  }
}
static int ref_dec(const std::string& s, ref::packet& k) { return ref::decode(reinterpret_cast<const uint8_t*>(s.data()), s.size(), k); }

extern "C" {
// ------------------------------------------------------------------ C17: encoders
void h_enc_publish(void) {
  expect e; publish_props pp; choose_props(pp, e);
  uint8_t q = (uint8_t)vk_choose(3); bool retain = vk_sym_u8() & 1, dup = q ? (vk_sym_u8() & 1) : 0; uint16_t pid = vk_sym_u16(); vk_assume(pid != 0);
  uint8_t t1 = vk_sym_u8();
  // length classes: Remaining Length of 1 and 2 bytes around 127/128, and 2/3 bytes around 16383/16384
  static const size_t targets[] = {0, 2, 127, 128, 16383, 16384}; size_t target = targets[vk_choose(6)];
  std::string topic = "t"; topic.push_back((char)t1);
  std::string base = enc::encode_publish(pid, topic, "", qos_e(q), retain_e(retain), dup_e(dup), pp);
  ref::packet k0; vk_assert(ref_dec(base, k0) == ref::OK, "encode_publish: not a well-formed PUBLISH");
  size_t plen = target > k0.remaining ? target - k0.remaining : (target <= 2 ? target : 0);
  std::string payload(plen, 'x'); uint8_t p0 = vk_sym_u8(); if (plen) payload[0] = (char)p0;
  std::string s = enc::encode_publish(pid, topic, payload, qos_e(q), retain_e(retain), dup_e(dup), pp);
  ref::packet k; int rv = ref_dec(s, k);
  vk_assert(rv == ref::OK && k.total == s.size(), "encode_publish: not one well-formed PUBLISH (flags / Remaining Length / properties)");
  vk_assert(k.type == ref::PUBLISH && k.qos == q && k.retain == retain && k.dup == dup, "encode_publish: fixed header flags differ from the arguments");
  vk_assert(k.has_pid == (q != 0) && (!q || k.pid == pid), "encode_publish: packet identifier differs");
  uint8_t tb[2] = {'t', t1}; eq_bytes(k.topic, tb, 2, "encode_publish: topic differs");
  vk_assert(k.payload.n == plen && (!plen || k.payload.p[0] == p0), "encode_publish: payload differs");
  check_props(k.props, e, "encode_publish: properties differ from the arguments");
  if (k.remaining >= 128) vk_reach("two-byte-length"); if (k.remaining >= 16384) vk_reach("three-byte-length"); vk_reach("ok");
}
#define ACK_ENC(NAME, FN, TYPE, PROPS) \
void NAME(void) { \
  expect e; PROPS pp; choose_props(pp, e); uint16_t pid = vk_sym_u16(); uint8_t rc = vk_sym_u8(); \
  std::string s = FN(pid, rc, pp); ref::packet k; int rv = ref::decode(reinterpret_cast<const uint8_t*>(s.data()), s.size(), k); \
  vk_assume(pid != 0); \
  vk_assert(rv == ref::OK && k.total == s.size() && k.type == TYPE, #FN ": not one well-formed packet"); \
  vk_assert(k.pid == pid && k.rc == rc, #FN ": packet identifier / reason code differ"); \
  check_props(k.props, e, #FN ": properties differ from the arguments"); vk_reach("ok"); }
ACK_ENC(h_enc_puback, enc::encode_puback, ref::PUBACK, puback_props)
ACK_ENC(h_enc_pubrec, enc::encode_pubrec, ref::PUBREC, pubrec_props)
ACK_ENC(h_enc_pubrel, enc::encode_pubrel, ref::PUBREL, pubrel_props)
ACK_ENC(h_enc_pubcomp, enc::encode_pubcomp, ref::PUBCOMP, pubcomp_props)
void h_enc_subscribe(void) {
  expect e; subscribe_props pp; choose_props(pp, e); uint16_t pid = vk_sym_u16(); vk_assume(pid != 0);
  int n = 1 + (int)vk_choose(2); std::vector<subscribe_topic> topics; uint8_t t1[2], opt[2];
  for (int i = 0; i < n; i++) {
    t1[i] = vk_sym_u8(); opt[i] = vk_sym_u8(); vk_assume((opt[i] & 0xC0) == 0 && (opt[i] & 3) != 3 && ((opt[i] >> 4) & 3) != 3);
    subscribe_options so; so.max_qos = qos_e(opt[i] & 3); so.no_local = no_local_e((opt[i] >> 2) & 1); so.retain_as_published = retain_as_published_e((opt[i] >> 3) & 1); so.retain_handling = retain_handling_e((opt[i] >> 4) & 3);
    topics.push_back({std::string{'f', (char)t1[i]}, so});
  }
  std::string s = enc::encode_subscribe(pid, topics, pp); ref::packet k; int rv = ref_dec(s, k);
  vk_assert(rv == ref::OK && k.total == s.size() && k.type == ref::SUBSCRIBE, "encode_subscribe: not one well-formed SUBSCRIBE");
  vk_assert(k.pid == pid && k.ntopics == n, "encode_subscribe: identifier / topic count differ");
  for (int i = 0; i < n; i++) { uint8_t tb[2] = {'f', t1[i]}; eq_bytes(k.topics[i], tb, 2, "encode_subscribe: topic filter differs"); vk_assert(k.opts[i] == opt[i], "encode_subscribe: subscription options differ"); }
  check_props(k.props, e, "encode_subscribe: properties differ from the arguments"); vk_reach("ok");
}
void h_enc_unsubscribe(void) {
  expect e; unsubscribe_props pp; choose_props(pp, e); uint16_t pid = vk_sym_u16(); vk_assume(pid != 0);
  int n = 1 + (int)vk_choose(2); std::vector<std::string> topics; uint8_t t1[2];
  for (int i = 0; i < n; i++) { t1[i] = vk_sym_u8(); topics.push_back(std::string{'f', (char)t1[i]}); }
  std::string s = enc::encode_unsubscribe(pid, topics, pp); ref::packet k; int rv = ref_dec(s, k);
  vk_assert(rv == ref::OK && k.total == s.size() && k.type == ref::UNSUBSCRIBE, "encode_unsubscribe: not one well-formed UNSUBSCRIBE");
  vk_assert(k.pid == pid && k.ntopics == n, "encode_unsubscribe: identifier / topic count differ");
  for (int i = 0; i < n; i++) { uint8_t tb[2] = {'f', t1[i]}; eq_bytes(k.topics[i], tb, 2, "encode_unsubscribe: topic filter differs"); }
  check_props(k.props, e, "encode_unsubscribe: properties differ from the arguments"); vk_reach("ok");
}
void h_enc_disconnect_auth_ping(void) {
  int which = (int)vk_choose(3); uint8_t rc = vk_sym_u8();
  if (which == 0) { expect e; disconnect_props pp; choose_props(pp, e); std::string s = enc::encode_disconnect(rc, pp); ref::packet k; int rv = ref_dec(s, k);
    vk_assert(rv == ref::OK && k.total == s.size() && k.type == ref::DISCONNECT && k.rc == rc, "encode_disconnect: not one well-formed DISCONNECT with the given code"); check_props(k.props, e, "encode_disconnect: properties differ"); vk_reach("disconnect"); }
  else if (which == 1) { expect e; auth_props pp; choose_props(pp, e); std::string s = enc::encode_auth(rc, pp); ref::packet k; int rv = ref_dec(s, k);
    vk_assert(rv == ref::OK && k.total == s.size() && k.type == ref::AUTH && k.rc == rc, "encode_auth: not one well-formed AUTH with the given code"); check_props(k.props, e, "encode_auth: properties differ"); vk_reach("auth"); }
  else { std::string s = enc::encode_pingreq(); ref::packet k; vk_assert(ref_dec(s, k) == ref::OK && k.type == ref::PINGREQ && s.size() == 2, "encode_pingreq: not a well-formed PINGREQ"); vk_reach("pingreq"); }
}
void h_enc_connect(void) {
  expect e, we; connect_props cp; choose_props(cp, e);
  bool has_user = vk_choose(2), has_pass = vk_choose(2), has_will = vk_choose(2); uint16_t ka = vk_sym_u16(); uint8_t id1 = vk_sym_u8(), u1 = vk_sym_u8(), p1 = vk_sym_u8(), wq = vk_sym_u8(), wt1 = vk_sym_u8(), wp1 = vk_sym_u8(); bool wr = vk_sym_u8() & 1; vk_assume(wq <= 2);
  bool clean = vk_sym_u8() & 1;
  std::optional<will> w; if (has_will) { will_props wp; choose_props(wp, we); w.emplace(std::string{'w', (char)wt1}, std::string(1, (char)wp1), qos_e(wq), retain_e(wr), wp); }
  std::string user(1, (char)u1), pass(1, (char)p1);
  std::string s = enc::encode_connect(std::string{'c', (char)id1}, has_user ? std::optional<std::string_view>(user) : std::nullopt, has_pass ? std::optional<std::string_view>(pass) : std::nullopt, ka, clean, cp, w);
  ref::packet k; int rv = ref_dec(s, k);
  vk_assert(rv == ref::OK && k.total == s.size() && k.type == ref::CONNECT, "encode_connect: not one well-formed CONNECT");
  vk_assert(k.keep_alive == ka && k.clean_start == clean && k.has_user == has_user && k.has_pass == has_pass && k.has_will == has_will, "encode_connect: flags / keep-alive differ from the arguments");
  uint8_t ib[2] = {'c', id1}; eq_bytes(k.client_id, ib, 2, "encode_connect: client identifier differs");
  if (has_user) eq_bytes(k.user, &u1, 1, "encode_connect: user name differs"); if (has_pass) eq_bytes(k.pass, &p1, 1, "encode_connect: password differs");
  if (has_will) { vk_assert(k.will_qos == wq && k.will_retain == wr, "encode_connect: Will QoS / RETAIN differ"); uint8_t tb[2] = {'w', wt1}; eq_bytes(k.will_topic, tb, 2, "encode_connect: Will topic differs"); eq_bytes(k.will_payload, &wp1, 1, "encode_connect: Will payload differs"); check_props(k.wprops, we, "encode_connect: Will properties differ"); vk_reach("with-will"); }
  check_props(k.props, e, "encode_connect: properties differ from the arguments"); vk_reach("ok");
}

} // extern "C"
// ------------------------------------------------------------------ C18: decoders on reference-encoded packets
// write the properties of a chosen shape with the reference encoder; `allowed` lists the identifiers of the packet type
static void ref_props(ref::wr& w, expect& e, const uint8_t* allowed, int nallowed) {
  int last = -1;
  for (int k = 0; k < VK_NPROPS; k++) {
    int pick = (int)vk_choose(nallowed - last); int nth = last + 1 + pick; if (nth >= nallowed) break; last = nth;
    uint8_t id = allowed[nth]; exp_prop& x = e.v[e.n++]; x.id = id; x.num = 0; x.na = x.nb = 0;
    switch (ref::prop_kind(id)) {
      case ref::K_BYTE: x.num = vk_sym_u8(); ref::p_byte(w, id, (uint8_t)x.num); break;
      case ref::K_U16: x.num = vk_sym_u16(); ref::p_u16(w, id, (uint16_t)x.num); break;
      case ref::K_U32: x.num = vk_sym_u32(); ref::p_u32(w, id, x.num); break;
      case ref::K_VARINT: x.num = vk_sym_u32(); vk_assume(x.num >= 1 && x.num <= 268435455u); ref::p_varint(w, id, x.num); break;
      case ref::K_STR: case ref::K_BIN: x.na = vk_choose(2) ? 2 : 0; x.a[0] = 's'; x.a[1] = vk_sym_u8(); ref::p_str(w, id, x.a, x.na); break;
      default: x.na = 1; x.a[0] = 'k'; x.nb = vk_choose(2) ? 2 : 0; x.b[0] = 'v'; x.b[1] = vk_sym_u8(); ref::p_pair(w, x.a, 1, x.b, x.nb); break;
    }
  }
}
// the library's property object holds exactly the expected values
template <class Props> static void check_lib_props(const Props& p, const expect& e, const char* what) {
  int set = 0;
  p.visit([&](auto id, const auto& val) {
    using V = std::decay_t<decltype(val)>; const exp_prop* x = nullptr; for (int i = 0; i < e.n; i++) if (e.v[i].id == (uint8_t)id) x = &e.v[i];
    if constexpr (is_opt<V>::value) {
      vk_assert(val.has_value() == (x != nullptr), what); if (!val.has_value() || !x) return true; set++;
      if constexpr (std::is_same_v<typename V::value_type, std::string>) { vk_assert((int)val->size() == x->na, what); for (int i = 0; i < x->na && i < (int)val->size(); i++) vk_assert((uint8_t)(*val)[i] == x->a[i], what); }
      else vk_assert((uint32_t)*val == x->num, what);
    } else if constexpr (std::is_same_v<V, prop::subscription_identifiers>) {
      int k = 0; for (int i = 0; i < e.n; i++) if (e.v[i].id == (uint8_t)id) { vk_assert((int)val.size() > k && (uint32_t)val[k] == e.v[i].num, what); k++; set++; }
      vk_assert((int)val.size() == k, what);
    } else {
      int k = 0;
      for (int i = 0; i < e.n; i++) if (e.v[i].id == (uint8_t)id) {
        vk_assert((int)val.size() > k, what);
        if ((int)val.size() > k) {
          const auto& pr = val[k]; vk_assert((int)pr.first.size() == e.v[i].na && (int)pr.second.size() == e.v[i].nb, what);
          for (int b = 0; b < e.v[i].na && b < (int)pr.first.size(); b++) vk_assert((uint8_t)pr.first[b] == e.v[i].a[b], what);
          for (int b = 0; b < e.v[i].nb && b < (int)pr.second.size(); b++) vk_assert((uint8_t)pr.second[b] == e.v[i].b[b], what);
        }
        k++; set++;
      }
      vk_assert((int)val.size() == k, what);
    }
    return true;
  });
  vk_assert(set == e.n, what);
}
static char* exact(const uint8_t* p, size_t n) { char* b = static_cast<char*>(malloc(n ? n : 1)); for (size_t i = 0; i < n; i++) b[i] = (char)p[i]; return b; }

extern "C" {
#define ACK_DEC(NAME, DECODE, ENCODE, TYPE) \
void NAME(void) { \
  uint8_t body[64]; ref::wr w = {body, sizeof body, 0, false}; expect e; static const uint8_t allowed[] = {0x1F, 0x26, 0x26}; \
  int form = (int)vk_choose(3); uint8_t rc = 0;          /* 0: nothing after the id, 1: reason code only, 2: reason code + properties */ \
  if (form >= 1) { rc = vk_sym_u8(); w.u8(rc); } \
  if (form == 2) { uint8_t pb[32]; ref::wr pw = {pb, sizeof pb, 0, false}; ref_props(pw, e, allowed, 3); w.varint((uint32_t)pw.n); w.bytes(pb, pw.n); } \
  char* buf = exact(body, w.n); detail::byte_citer it(buf); auto r = DECODE((uint32_t)w.n, it); \
  vk_assert(r.has_value(), #DECODE ": a well-formed packet was rejected"); if (!r) return; \
  vk_assert(std::get<0>(*r) == rc, #DECODE ": reason code differs"); check_lib_props(std::get<1>(*r), e, #DECODE ": properties differ from the encoded ones"); \
  vk_assert(&*it == buf + w.n || w.n == 0, #DECODE ": iterator does not end at the packet end"); \
  /* and back: the encoder reproduces the contents */ \
  std::string s = ENCODE(uint16_t(7), std::get<0>(*r), std::get<1>(*r)); ref::packet k; int rv = ref::decode(reinterpret_cast<const uint8_t*>(s.data()), s.size(), k); \
  vk_assert(rv == ref::OK && k.type == TYPE && k.pid == 7 && k.rc == rc, #ENCODE ": re-encoding does not reproduce the packet"); check_props(k.props, e, #ENCODE ": re-encoding loses properties"); \
  free(buf); vk_reach(form == 0 ? "short-form" : form == 1 ? "rc-only" : "full"); }
ACK_DEC(h_dec_puback, dec::decode_puback, enc::encode_puback, ref::PUBACK)
ACK_DEC(h_dec_pubrec, dec::decode_pubrec, enc::encode_pubrec, ref::PUBREC)
ACK_DEC(h_dec_pubrel, dec::decode_pubrel, enc::encode_pubrel, ref::PUBREL)
ACK_DEC(h_dec_pubcomp, dec::decode_pubcomp, enc::encode_pubcomp, ref::PUBCOMP)

void h_dec_connack(void) {
  uint8_t body[64]; ref::wr w = {body, sizeof body, 0, false}; expect e;
  static const uint8_t allowed[] = {0x11, 0x12, 0x13, 0x15, 0x16, 0x1A, 0x1C, 0x1F, 0x21, 0x22, 0x24, 0x25, 0x26, 0x27, 0x28, 0x29, 0x2A};
  uint8_t sp = vk_sym_u8() & 1, rc = vk_sym_u8(); w.u8(sp); w.u8(rc);
  uint8_t pb[40]; ref::wr pw = {pb, sizeof pb, 0, false}; ref_props(pw, e, allowed, 17); w.varint((uint32_t)pw.n); w.bytes(pb, pw.n);
  char* buf = exact(body, w.n); detail::byte_citer it(buf); auto r = dec::decode_connack((uint32_t)w.n, it);
  vk_assert(r.has_value(), "decode_connack: a well-formed CONNACK was rejected"); if (!r) return;
  vk_assert((std::get<0>(*r) & 1) == sp && std::get<1>(*r) == rc, "decode_connack: Session Present / reason code differ"); check_lib_props(std::get<2>(*r), e, "decode_connack: properties differ from the encoded ones");
  std::string s = enc::encode_connack(sp, rc, std::get<2>(*r)); ref::packet k; int rv = ref_dec(s, k);
  vk_assert(rv == ref::OK && k.type == ref::CONNACK && k.session_present == sp && k.rc == rc, "encode_connack: re-encoding does not reproduce the packet"); check_props(k.props, e, "encode_connack: re-encoding loses properties");
  free(buf); vk_reach("ok");
}
void h_dec_publish(void) {
  uint8_t body[96]; ref::wr w = {body, sizeof body, 0, false}; expect e; static const uint8_t allowed[] = {0x01, 0x02, 0x03, 0x08, 0x09, 0x0B, 0x0B, 0x23, 0x26, 0x26};
  uint8_t q = (uint8_t)vk_choose(3); bool retain = vk_sym_u8() & 1, dup = q ? (vk_sym_u8() & 1) : 0; uint16_t pid = vk_sym_u16(); vk_assume(pid != 0);
  uint8_t t1 = vk_sym_u8(), p1 = vk_sym_u8(); uint8_t tb[2] = {'t', t1}; int plen = (int)vk_choose(3);
  w.lstr(tb, 2); if (q) w.u16(pid);
  uint8_t pb[40]; ref::wr pw = {pb, sizeof pb, 0, false}; ref_props(pw, e, allowed, 10); w.varint((uint32_t)pw.n); w.bytes(pb, pw.n);
  for (int i = 0; i < plen; i++) w.u8(i == 0 ? p1 : 'x');
  uint8_t flags = (uint8_t)((dup ? 8 : 0) | (q << 1) | (retain ? 1 : 0));
  char* buf = exact(body, w.n); detail::byte_citer it(buf); auto r = dec::decode_publish(0x30 | flags, (uint32_t)w.n, it);
  vk_assert(r.has_value(), "decode_publish: a well-formed PUBLISH was rejected"); if (!r) return;
  auto& [topic, rpid, rflags, props, payload] = *r;
  vk_assert(topic.size() == 2 && topic[0] == 't' && (uint8_t)topic[1] == t1, "decode_publish: topic differs");
  vk_assert(rpid.has_value() == (q != 0) && (!q || *rpid == pid), "decode_publish: packet identifier differs");
  vk_assert(rflags == flags, "decode_publish: flags differ");
  vk_assert((int)payload.size() == plen && (!plen || (uint8_t)payload[0] == p1), "decode_publish: payload differs");
  check_lib_props(props, e, "decode_publish: properties differ from the encoded ones");
  std::string s = enc::encode_publish(q ? pid : 0, topic, payload, qos_e(q), retain_e(retain), dup_e(dup), props); ref::packet k; int rv = ref_dec(s, k);
  vk_assert(rv == ref::OK && k.type == ref::PUBLISH && k.qos == q && k.retain == retain && k.dup == dup && k.payload.n == (uint32_t)plen, "encode_publish: re-encoding does not reproduce the packet"); check_props(k.props, e, "encode_publish: re-encoding loses properties");
  free(buf); vk_reach("ok");
}
#define SUBACK_DEC(NAME, DECODE, ENCODE, TYPE) \
void NAME(void) { \
  uint8_t body[64]; ref::wr w = {body, sizeof body, 0, false}; expect e; static const uint8_t allowed[] = {0x1F, 0x26}; \
  uint8_t pb[32]; ref::wr pw = {pb, sizeof pb, 0, false}; ref_props(pw, e, allowed, 2); w.varint((uint32_t)pw.n); w.bytes(pb, pw.n); \
  int n = 1 + (int)vk_choose(3); uint8_t codes[3]; for (int i = 0; i < n; i++) { codes[i] = vk_sym_u8(); w.u8(codes[i]); } \
  char* buf = exact(body, w.n); detail::byte_citer it(buf); auto r = DECODE((uint32_t)w.n, it); \
  vk_assert(r.has_value(), #DECODE ": a well-formed packet was rejected"); if (!r) return; \
  vk_assert((int)std::get<1>(*r).size() == n, #DECODE ": number of reason codes differs"); for (int i = 0; i < n && i < (int)std::get<1>(*r).size(); i++) vk_assert(std::get<1>(*r)[i] == codes[i], #DECODE ": reason codes differ"); \
  check_lib_props(std::get<0>(*r), e, #DECODE ": properties differ from the encoded ones"); \
  std::string s = ENCODE(uint16_t(9), std::get<1>(*r), std::get<0>(*r)); ref::packet k; int rv = ref::decode(reinterpret_cast<const uint8_t*>(s.data()), s.size(), k); \
  vk_assert(rv == ref::OK && k.type == TYPE && k.pid == 9 && k.ncodes == n, #ENCODE ": re-encoding does not reproduce the packet"); check_props(k.props, e, #ENCODE ": re-encoding loses properties"); \
  free(buf); vk_reach("ok"); }
SUBACK_DEC(h_dec_suback, dec::decode_suback, enc::encode_suback, ref::SUBACK)
SUBACK_DEC(h_dec_unsuback, dec::decode_unsuback, enc::encode_unsuback, ref::UNSUBACK)
#define RC_DEC(NAME, DECODE, ENCODE, TYPE, ALLOWED, NALLOWED) \
void NAME(void) { \
  uint8_t body[64]; ref::wr w = {body, sizeof body, 0, false}; expect e; static const uint8_t allowed[] = ALLOWED; \
  int form = (int)vk_choose(3); uint8_t rc = 0; \
  if (form >= 1) { rc = vk_sym_u8(); w.u8(rc); } \
  if (form == 2) { uint8_t pb[40]; ref::wr pw = {pb, sizeof pb, 0, false}; ref_props(pw, e, allowed, NALLOWED); w.varint((uint32_t)pw.n); w.bytes(pb, pw.n); } \
  char* buf = exact(body, w.n); detail::byte_citer it(buf); auto r = DECODE((uint32_t)w.n, it); \
  vk_assert(r.has_value(), #DECODE ": a well-formed packet was rejected"); if (!r) return; \
  vk_assert(std::get<0>(*r) == rc, #DECODE ": reason code differs"); check_lib_props(std::get<1>(*r), e, #DECODE ": properties differ from the encoded ones"); \
  std::string s = ENCODE(std::get<0>(*r), std::get<1>(*r)); ref::packet k; int rv = ref::decode(reinterpret_cast<const uint8_t*>(s.data()), s.size(), k); \
  vk_assert(rv == ref::OK && k.type == TYPE && k.rc == rc, #ENCODE ": re-encoding does not reproduce the packet"); check_props(k.props, e, #ENCODE ": re-encoding loses properties"); \
  free(buf); vk_reach(form == 0 ? "short-form" : form == 1 ? "rc-only" : "full"); }
#define A_DISC {0x11, 0x1C, 0x1F, 0x26}
#define A_AUTH {0x15, 0x16, 0x1F, 0x26}
RC_DEC(h_dec_disconnect, dec::decode_disconnect, enc::encode_disconnect, ref::DISCONNECT, A_DISC, 4)
RC_DEC(h_dec_auth, dec::decode_auth, enc::encode_auth, ref::AUTH, A_AUTH, 4)
}
