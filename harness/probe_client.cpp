#include "vk_api.h"
#include <boost/mqtt5/mqtt_client.hpp>
#include <boost/asio/ip/tcp.hpp>
template class std::basic_string<char>;
namespace asio = boost::asio; using namespace boost::mqtt5;
using client_t = mqtt_client<asio::ip::tcp::socket>;
static int g_run_done = 0, g_pub_done = 0, g_pub_ec = -1, g_pub_rc = -1;
static void feed(const char* bytes, size_t n) {
  auto* s = vk::pending_read(); vk_assert(s != nullptr, "read pending"); vk::complete_read(s, bytes, n, {}); vk::drain();
}
extern "C" void h_probe(void) {
  client_t c(vk::executor{});
  c.brokers("a", 1883).async_run([](error_code) { g_run_done++; });
  vk_event(1, vk::drain());
  auto* r = vk::pending_resolve(); vk_assert(r != nullptr, "resolve pending");
  vk::complete_resolve(r, {}, 1); vk_event(2, vk::drain());
  auto* s = vk::pending_connect(); vk_assert(s != nullptr, "connect pending");
  vk::complete_connect(s, {}); vk_event(3, vk::drain());
  auto* w = vk::pending_write(); vk_assert(w != nullptr, "CONNECT write pending");
  vk_event(4, vk::world().wire.size());
  vk::complete_write(w, w->wsize, {}); vk_event(5, vk::drain());
  static const char connack[] = {0x20, 0x03, 0x00, 0x00, 0x00};
  feed(connack, 5);
  vk_event(6, vk::world().handlers_run);
  vk_event(60, (vk::pending_read()?1:0) + (vk::pending_connect()?2:0) + (vk::pending_write()?4:0) + (vk::pending_resolve()?8:0)); for (auto* t : vk::world().timers) vk_event(61, t->id * 1000000 + (t->armed ? 100000 : 0) + (t->max_wait ? 99999 : t->dur_ms));
  c.async_publish<qos_e::at_least_once>("t", "p", retain_e::no, publish_props{}, [](error_code ec, reason_code rc, puback_props) { g_pub_done++; g_pub_ec = ec.value(); g_pub_rc = rc.value(); });
  vk_event(7, vk::drain());
  w = vk::pending_write(); vk_assert(w != nullptr, "PUBLISH write pending");
  vk::complete_write(w, w->wsize, {}); vk_event(8, vk::drain());
  static const char puback[] = {0x40, 0x02, 0x00, 0x01};
  feed(puback, 4);
  vk_event(9, g_pub_done * 100 + g_pub_ec);
  vk_assert(g_pub_done == 1 && g_pub_ec == 0, "publish completed");
  c.cancel(); vk_event(10, vk::drain());
  vk_event(11, g_run_done);
}
