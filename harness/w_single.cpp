// C11 (whole client): however many operations fail at once, at most one connection attempt is in progress, stale triggers
// do not connect again, and after cancel() no queued trigger proceeds to connect.
#include "w_client.hpp"
using namespace wc;

static void check_single(W& w) {
  vk_assert(vk::count_pending_connects() <= 1, "more than one TCP connect in progress");
  vk_assert(vk::world().overlapping_connects == 0, "a connection attempt was started while another one was in progress");
  int resolves = 0; for (auto* r : vk::world().resolvers) if (r->h) resolves++;
  vk_assert(resolves + vk::count_pending_connects() <= 1, "name resolution and a TCP connect of two attempts overlap");
}

extern "C" void h_single_flight(void) {
  W* wp = new W(); W& w = *wp;
  w.c.keep_alive(10);
  w.c.brokers("a,b,c", 1883);
  w.in_api = true; w.c.async_run([&w](error_code ec) { w.run_done++; w.run_ec = ec.value(); }); w.in_api = false; vk::drain();
  bool ok = w.establish(); vk_assert(ok, "first connection"); w.send_connack(true, 0, nullptr, 0); w.feed_all(); vk::drain();
  int attempts0 = vk::world().connect_attempts;
  // traffic: a write in progress (and one request queued behind it)
  bool with_write = vk_choose(2);
  if (with_write) { w.publish<qos_e::at_least_once>("t", "A"); w.publish<qos_e::at_most_once>("t", "B"); vk::drain(); }
  // ---- several things fail at once, in any order
  int nfail = 1 + vk_choose(3);
  for (int f = 0; f < nfail; f++) {
    switch (vk_choose(3)) {
      case 0: if (auto* s = vk::pending_read()) { if (!s->broken) { vk::complete_read(s, nullptr, 0, asio::error::connection_reset); vk_reach("read-failed"); } } break;
      case 1: if (auto* s = vk::pending_write()) { w.writes_completed++; vk::complete_write(s, 0, asio::error::broken_pipe); vk_reach("write-failed"); } break;
      default: { vk::timer_rec* rt = vk::world().timers[0]; if (rt->armed) { w.fire_until(rt); vk_reach("read-timeout"); } break; }
    }
    if (vk_choose(2)) { vk::run_one(); vk::run_one(); }       // the failures may or may not be processed in between
    check_single(w);
  }
  vk::drain(); check_single(w);
  bool cancel_midway = vk_choose(2);
  // ---- the reconnect: first candidate refused or not, then success
  int guard = 0; bool refused_once = false;
  while (w.attempt_in_progress() && guard++ < 6) {
    check_single(w);
    if (auto* r = vk::pending_resolve()) { vk::complete_resolve(r, {}, 1); vk::drain(); check_single(w); continue; }
    if (auto* s = vk::pending_connect()) {
      if (cancel_midway) { w.in_api = true; w.c.cancel(); w.in_api = false; vk::drain(); check_single(w); vk_reach("cancelled-midway"); break; }
      if (!refused_once && vk_choose(2)) { refused_once = true; vk::complete_connect(s, asio::error::connection_refused); vk::drain(); vk_reach("refused"); continue; }
      vk::complete_connect(s, {}); w.new_connection(); vk::drain(); check_single(w);
      if (auto* wr = vk::pending_write()) { w.finish_write(wr, wr->wdata.size(), {}); vk::drain(); }
      w.send_connack(true, 0, nullptr, 0); w.feed_all(); vk::drain(); check_single(w);
      continue;
    }
    vk::timer_rec* ct = vk::world().timers[1]; if (ct->armed) { w.fire_until(ct); continue; }
    break;
  }
  vk::drain(); check_single(w);
  if (cancel_midway) {
    vk_assert(!vk::pending_connect() && !vk::pending_resolve(), "a trigger proceeded to connect after cancel()");
    int a = vk::world().connect_attempts; vk::drain();
    for (auto* t : vk::world().timers) if (t->armed) { w.fire_until(t); }
    vk_assert(vk::world().connect_attempts == a, "a queued trigger proceeded to connect after cancel()");
    return;
  }
  if (w.connected()) {
    // every trigger has been resolved by that one reconnect: nothing starts another attempt now
    int a = vk::world().connect_attempts;
    if (auto* wr = vk::pending_write()) { w.finish_write(wr, wr->wdata.size(), {}); vk::drain(); }
    vk::drain(); check_single(w);
    vk_assert(vk::world().connect_attempts == a && !w.attempt_in_progress(), "a stale trigger started another connection attempt after the reconnect succeeded");
    vk_assert(a - attempts0 <= 2, "more connection attempts than candidates tried");
    vk_reach("reconnected-once");
  }
}

// async_run stopped through its cancellation slot while one trigger holds the connection lock (attempt in flight) and others wait,
// and called again once the stopped async_run has completed: the restarted session shares the service, the stream and the
// connection lock with the old one (async_run is not called again while the first call is still outstanding: with two runs
// alive their sentry operations share one timer). Further triggers (a read by the new session, a write of a new
// publish) arrive while its attempt is in flight. At no point may two attempts overlap, and the restarted client connects.
static void some_handlers() { int n = (int)vk_choose(4); if (n == 3) { vk::drain(); return; } for (int i = 0; i < n * 2; i++) vk::run_one(); }
extern "C" void h_single_flight_restart(void) {
  W* wp = new W(); W& w = *wp;
  w.c.keep_alive(10);
  w.c.brokers("a,b,c", 1883);
  w.run_cancellable(); vk::drain();
  bool ok = w.establish(); vk_assert(ok, "first connection"); w.send_connack(true, 0, nullptr, 0); w.feed_all(); vk::drain();
  w.publish<qos_e::at_least_once>("t", "A"); w.publish<qos_e::at_most_once>("t", "B"); vk::drain();
  // the connection dies: read and write fail together (one trigger gets the lock, the other one queues), or only one of them
  int how = (int)vk_choose(3);
  if (how != 1) if (auto* s = vk::pending_read()) vk::complete_read(s, nullptr, 0, asio::error::connection_reset);
  if (how != 0) if (auto* s = vk::pending_write()) { w.writes_completed++; vk::complete_write(s, 0, asio::error::broken_pipe); }
  if (how == 2) vk_reach("two-triggers");
  vk::drain(); check_single(w);
  // the attempt makes some progress (resolve done or not)
  if (vk_choose(2)) if (auto* r = vk::pending_resolve()) { vk::complete_resolve(r, {}, 1); vk::drain(); check_single(w); }
  // ---- stop through the slot of async_run and run again
  w.cancel_run(); vk::drain(); check_single(w);
  vk_assert(w.run_done == 1 && w.run_ec == asio::error::operation_aborted, "async_run stopped through its cancellation slot completes with operation_aborted");
  w.run_cancellable(); vk_reach("restarted"); some_handlers(); check_single(w);
  // ---- the restarted session: triggers keep arriving while its attempt is in flight
  int extra = 0; bool connected = false;
  for (int guard = 0; guard < 10 && !connected; guard++) {
    check_single(w);
    if (extra < 2 && vk_choose(2)) { extra++; w.publish<qos_e::at_most_once>("t", "C"); some_handlers(); check_single(w); vk_reach("trigger-during-attempt"); }
    if (auto* r = vk::pending_resolve()) { vk::complete_resolve(r, {}, 1); some_handlers(); check_single(w); continue; }
    if (auto* s = vk::pending_connect()) {
      vk::complete_connect(s, {}); w.new_connection(); vk::drain(); check_single(w);
      if (auto* wr = vk::pending_write()) { w.finish_write(wr, wr->wdata.size(), {}); vk::drain(); }
      check_single(w);
      w.send_connack(true, 0, nullptr, 0); w.feed_all(); vk::drain(); check_single(w);
      connected = w.connected_or_writing(); continue;
    }
    if (vk::world().q_head) { vk::drain(); continue; }
    vk::timer_rec* ct = vk::world().timers[1]; if (ct->armed) { w.fire_until(ct); continue; }
    break;
  }
  vk::drain(); check_single(w);
  vk_assert(w.run_done == 1, "the stopped async_run completed exactly once");
  vk_assert(connected, "the restarted client did not connect");
  int a = vk::world().connect_attempts;
  for (int g = 0; g < 4; g++) { if (auto* wr = vk::pending_write()) { w.finish_write(wr, wr->wdata.size(), {}); vk::drain(); } }
  check_single(w);
  vk_assert(vk::world().connect_attempts == a && !w.attempt_in_progress(), "a stale trigger started another connection attempt after the restarted client connected");
  vk_reach("restarted-and-connected");
}
