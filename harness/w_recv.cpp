// C04: inbound PUBLISH on the real client: acknowledgement per QoS with the same packet id, PUBCOMP only after PUBREL, every
// PUBREL answered, faithful delivery through async_receive, QoS 2 exactly once, QoS 1 at least once, order per QoS level.
// The broker model is a protocol-conformant MQTT sender: it retransmits (DUP) only after a reconnect that resumes the session.
#include "w_client.hpp"
using namespace wc;
#ifndef VK_STEPS
#define VK_STEPS 6
#endif
#ifndef VK_MSGS
#define VK_MSGS 2
#endif

struct bmsg { uint8_t qos; uint16_t pid; uint8_t tag, t1, p1; bool has_exp; uint32_t exp;
              bool got_ack;      // broker received PUBACK / PUBREC
              bool rel_sent;     // broker sent PUBREL at least once
              bool got_comp;     // broker received PUBCOMP
              bool abandoned;    // session was not resumed while the exchange was open
              bool comp_lost;    // the client wrote PUBCOMP, but the bytes were lost with the connection
              int delivered; };

struct X {
  W w;
  bmsg m[VK_MSGS]; int nm = 0; int nreconn = 0; int own = -1;
  int rel_to_client[VK_MSGS]; int comp_from_client[VK_MSGS];

  void send_publish(bmsg& b, bool dup) {
    uint8_t topic[2] = {'m', b.t1}; uint8_t payload[2] = {b.tag, b.p1};
    uint8_t pr[5]; size_t pl = 0; if (b.has_exp) { pr[0] = 0x02; pr[1] = b.exp >> 24; pr[2] = b.exp >> 16; pr[3] = b.exp >> 8; pr[4] = b.exp; pl = 5; }
    ref::wr o = w.outw(); ref::enc_publish(o, topic, 2, payload, 2, b.qos, dup, false, b.pid, pr, pl); w.commit(o);
  }
  void deliver(int chunk) { if (chunk == 1 && w.out_avail() > 1) { w.feed(1); vk::drain(); } w.feed_all(); vk::drain(); }
  void ev_new_publish() {
    if (nm >= VK_MSGS || !w.connected()) vk_assume(0);
    bmsg& b = m[nm]; b = bmsg{}; b.qos = (uint8_t)vk_choose(3); b.pid = b.qos ? (uint16_t)(1 + nm) : 0; /* same numbers as the client allocates for its own requests: independent number spaces */ b.tag = (uint8_t)('A' + nm);
    b.t1 = vk_sym_u8(); b.p1 = vk_sym_u8(); b.has_exp = vk_choose(2); b.exp = b.has_exp ? vk_sym_u32() : 0;
    rel_to_client[nm] = 0; comp_from_client[nm] = 0; nm++;
    send_publish(b, false); deliver(vk_choose(2)); vk_reach(b.qos == 2 ? "qos2-sent" : b.qos == 1 ? "qos1-sent" : "qos0-sent");
  }
  void ev_pubrel() {
    int j = -1; for (int i = 0; i < nm; i++) if (m[i].qos == 2 && m[i].got_ack && !m[i].rel_sent && !m[i].abandoned) { j = i; break; }
    if (j < 0 || !w.connected()) vk_assume(0);
    m[j].rel_sent = true; rel_to_client[j]++; w.ack(ref::PUBREL, m[j].pid, 0, vk_choose(2)); deliver(0); vk_reach("pubrel-sent");
  }
  void on_client_packets(int from) {
    for (int i = from; i < w.npk; i++) {
      const pkt_rec& r = w.pk[i];
      if (r.type == ref::PUBACK || r.type == ref::PUBREC || r.type == ref::PUBCOMP) {
        int j = -1; for (int k = 0; k < nm; k++) if (m[k].pid == r.pid && !m[k].abandoned) j = k;
        vk_assert(j >= 0, "client acknowledged a packet identifier the broker never used");
        if (r.type == ref::PUBACK) { vk_assert(m[j].qos == 1, "PUBACK for a message that was not sent with QoS 1"); m[j].got_ack = true; }
        if (r.type == ref::PUBREC) { vk_assert(m[j].qos == 2, "PUBREC for a message that was not sent with QoS 2"); m[j].got_ack = true; }
        if (r.type == ref::PUBCOMP) {
          vk_assert(m[j].qos == 2 && m[j].rel_sent, "PUBCOMP sent before the broker sent PUBREL for that packet identifier");
          m[j].got_comp = true; comp_from_client[j]++; vk_reach("pubcomp-received");
        }
      }
    }
  }
  // the application sends a request of its own; it is allocated packet identifier 1, the same number the broker uses
  void ev_own_publish() { if (own >= 0) vk_assume(0); own = w.publish<qos_e::at_least_once>("o", "O"); vk::drain(); vk_reach("own-publish"); }
  // the broker already has the bytes of the write in progress (and may react: PUBREL for a PUBREC it just got) while the client
  // has not yet seen its write complete
  int nearly = 0;
  void ev_early_delivery() {
    auto* s = vk::pending_write(); if (!s || s->delivered_early || nearly >= 1) vk_assume(0);
    nearly++; int before = w.npk; w.deliver_early(s); on_client_packets(before); vk_reach("early-delivery");
  }
  void ev_write_done() {
    auto* s = vk::pending_write(); if (!s) vk_assume(0);
    int before = w.npk; w.finish_write(s, s->wdata.size(), {}); vk::drain(); on_client_packets(before);
  }
  void ev_reconnect() {
    if (w.connected()) {
      if (nreconn >= 1) vk_assume(0); nreconn++;
      // a write in progress either fails, or succeeds locally while its bytes are lost with the connection
      // (a write whose bytes all reached the broker has completed successfully on a TCP socket, whatever happens to the connection afterwards)
      if (auto* s = vk::pending_write()) if (s->delivered_early) { int b0 = w.npk; w.finish_write(s, s->wdata.size(), {}); vk::drain(); on_client_packets(b0); }
      if (auto* s = vk::pending_write()) if (!s->delivered_early && vk_choose(2)) {
        const uint8_t* p = reinterpret_cast<const uint8_t*>(s->wdata.data()); size_t n = s->wdata.size(), i = 0;
        while (i < n) { ref::packet k; if (ref::decode(p + i, n - i, k) != ref::OK) break; if (k.type == ref::PUBCOMP) for (int j = 0; j < nm; j++) if (m[j].pid == k.pid) m[j].comp_lost = true; i += k.total; }
        w.lose_write(s); vk::drain(); vk_reach("write-lost-in-flight");
      }
      w.drop_connection(); vk::drain();
    }
    else if (!w.attempt_in_progress()) vk_assume(0);
    int before = w.npk;
    // with a QoS 2 exchange open, the first attempt to come back may be refused (CONNACK with a failure code, which always has Session Present 0)
    bool open_qos2 = false; for (int i = 0; i < nm; i++) if (m[i].qos == 2 && !m[i].got_comp && !m[i].abandoned) open_qos2 = true;
    if (open_qos2 && vk_choose(2)) { bool fa = w.failed_attempt(2); vk_assert(fa, "the client tries to reconnect"); on_client_packets(before); before = w.npk; vk_reach("reconnect-refused-first"); }
    bool ok = w.establish(); vk_assert(ok, "the client reconnects after a connection loss");
    bool sp = vk_choose(2);
    w.send_connack(sp, 0, nullptr, 0); w.feed_all(); vk::drain(); on_client_packets(before);
    if (!sp) { for (int i = 0; i < nm; i++) if (m[i].qos && !(m[i].qos == 1 ? m[i].got_ack : m[i].got_comp)) m[i].abandoned = true; vk_reach("session-lost"); return; }
    // session resumed: the broker retransmits, in order, what is unacknowledged [MQTT-4.4.0-1]
    for (int i = 0; i < nm; i++) {
      if (m[i].qos == 0 || m[i].abandoned) continue;
      if (!m[i].got_ack) { send_publish(m[i], true); deliver(0); vk_reach("publish-retransmitted"); }
      else if (m[i].qos == 2 && m[i].rel_sent && !m[i].got_comp) { rel_to_client[i]++; w.ack(ref::PUBREL, m[i].pid, 0, 1); deliver(0); vk_reach("pubrel-retransmitted"); }
    }
    vk_reach("session-resumed");
  }
  void check_deliveries() {
    // application side: every message handed over equals what the broker sent
    int last_tag_per_qos[3] = {-1, -1, -1};
    for (int i = 0; i < nm; i++) m[i].delivered = 0;
    for (int k = 0; k < w.nmsgs; k++) {
      const msg_rec& g = w.msgs[k]; if (g.ec) continue;
      int j = -1; for (int i = 0; i < nm; i++) if (g.payload0 == m[i].tag) j = i;
      vk_assert(j >= 0, "application received a message the broker never sent");
      vk_assert(g.tlen == 2 && g.plen == 2 && g.topic0 == 'm' && g.topic1 == m[j].t1 && g.payload1 == m[j].p1, "delivered topic/payload differs from the PUBLISH the broker sent");
      vk_assert(g.has_exp == m[j].has_exp && g.exp == m[j].exp && g.nprops == (m[j].has_exp ? 1 : 0), "delivered properties differ from the PUBLISH the broker sent");
      m[j].delivered++;
      vk_assert(j > last_tag_per_qos[m[j].qos] || m[j].qos == 1, "messages of one QoS level were delivered out of order");
      if (j > last_tag_per_qos[m[j].qos]) last_tag_per_qos[m[j].qos] = j;
    }
    // while the broker is ahead of the client (it has the bytes of a write whose completion the client has not processed yet) the
    // client may still owe the application what it has already acknowledged on the wire
    bool broker_ahead = vk::pending_write() && vk::pending_write()->delivered_early;
    for (int i = 0; i < nm; i++) {
      if (m[i].qos == 2) vk_assert(m[i].delivered <= 1, "a QoS 2 message was handed to the application more than once");
      if (m[i].qos == 0) vk_assert(m[i].delivered <= 1, "a QoS 0 message was handed to the application more than once");
      if (m[i].qos == 2 && m[i].got_comp && !broker_ahead) vk_assert(m[i].delivered == 1, "QoS 2 exchange completed (PUBCOMP) but the message was not delivered exactly once");
      if (m[i].qos == 1 && m[i].got_ack && !broker_ahead) vk_assert(m[i].delivered >= 1, "QoS 1 message acknowledged (PUBACK) but never delivered");
      if (m[i].delivered) vk_reach(m[i].qos == 2 ? "qos2-delivered" : m[i].qos == 1 ? "qos1-delivered" : "qos0-delivered");
    }
  }
};

extern "C" void h_recv(void) {
  X* x = new X(); W& w = x->w;
  w.start(); w.connect_ok(true);
  for (int step = 0; step < VK_STEPS; step++) {
    while (w.receive_pending == 0 && w.nmsgs < MAXMSG - 1) w.receive();
    vk::drain();
    uint32_t ev = vk_choose(6);
    switch (ev) {
      case 0: x->ev_new_publish(); break;
      case 1: x->ev_pubrel(); break;
      case 2: x->ev_write_done(); break;
      case 3: x->ev_own_publish(); break;
      case 4: x->ev_early_delivery(); break;
      default: x->ev_reconnect(); break;
    }
    while (w.receive_pending == 0 && w.nmsgs < MAXMSG - 1) { w.receive(); vk::drain(); }
    vk_event(10 + ev, w.nmsgs);
    x->check_deliveries();
  }
  // fault-free suffix on the current connection: the client's acknowledgements get through, the broker continues every exchange
  for (int round = 0; round < 12; round++) {
    bool progress = false;
    if (!w.connected() && !vk::pending_write() && w.attempt_in_progress()) break;     // a reconnect is in progress: exchanges stay open
    if (auto* s = vk::pending_write()) { int b = w.npk; w.finish_write(s, s->wdata.size(), {}); vk::drain(); x->on_client_packets(b); progress = true; }
    for (int i = 0; i < x->nm; i++) if (x->m[i].qos == 2 && x->m[i].got_ack && !x->m[i].rel_sent && !x->m[i].abandoned && w.connected()) {
      x->m[i].rel_sent = true; x->rel_to_client[i]++; w.ack(ref::PUBREL, x->m[i].pid, 0, 1); x->deliver(0); progress = true; }
    while (w.receive_pending == 0 && w.nmsgs < MAXMSG - 1) { w.receive(); vk::drain(); }
    if (!progress) break;
  }
  x->check_deliveries();
  if (w.connected())
    for (int i = 0; i < x->nm; i++) {
      bmsg& b = x->m[i]; if (b.abandoned) continue;
      // every PUBLISH the client received on this connection is acknowledged as its QoS demands ...
      if (b.qos == 1) vk_assert(b.got_ack, "QoS 1 PUBLISH was never acknowledged with PUBACK although the connection stayed up");
      if (b.qos == 2) vk_assert(b.got_ack, "QoS 2 PUBLISH was never acknowledged with PUBREC although the connection stayed up");
      // ... and every PUBREL is answered by a PUBCOMP
      if (b.qos == 2 && x->rel_to_client[i] > 0) {
        if (b.comp_lost) vk_assert(b.got_comp, "a retransmitted PUBREL (the first PUBCOMP was lost in flight, the exchange is already finished on the client) was never answered with PUBCOMP");
        else vk_assert(b.got_comp, "a PUBREL was never answered with PUBCOMP although the connection stayed up");
      }
    }
}
