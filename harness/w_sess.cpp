// C13: losing the session is reported exactly once through async_receive, ahead of any message of the new session.
#include "w_client.hpp"
using namespace wc;
#ifndef VK_STEPS
#define VK_STEPS 6
#endif
#ifndef VK_RECONNECTS
#define VK_RECONNECTS 2
#endif
#ifndef VK_REFUSALS
#define VK_REFUSALS 1
#endif

struct X {
  W w; int nsub = 0; int nreconn = 0; int nmsg = 0;
  bool sub_since_report = false;   // a subscription succeeded since start / since the last report
  int expected_reports = 0;
  int msgs_before_epoch[8];        // number of application entries delivered before connection epoch e came up
  int expected_at_epoch[8];        // expected number of reports right after epoch e came up

  void pump() { while (w.receive_pending == 0 && w.nmsgs < MAXMSG - 1) { w.receive(); vk::drain(); } }
  void check() {
    int reports = 0; for (int i = 0; i < w.nmsgs; i++) if (w.msgs[i].session_expired) reports++;
    vk_assert(reports == expected_reports, "number of session_expired reports differs from the number of lost sessions that had a subscription");
    // ordering: a report caused by connection e precedes every message the broker sent on connection e (payload byte = epoch)
    int seen_reports = 0;
    for (int i = 0; i < w.nmsgs; i++) {
      if (w.msgs[i].session_expired) { seen_reports++; continue; }
      if (w.msgs[i].ec) continue;
      int e = w.msgs[i].payload0; if (e < 8) vk_assert(seen_reports >= expected_at_epoch[e], "a message of the new session was delivered ahead of the session_expired report");
    }
    if (reports) vk_reach("reported");
  }
};

extern "C" void h_session(void) {
  X* x = new X(); W& w = x->w;
  for (int i = 0; i < 8; i++) x->expected_at_epoch[i] = 0;
  w.start(); bool ok = w.establish(); vk_assert(ok, "first connection");
  bool sp0 = vk_choose(2); w.send_connack(sp0, 0, nullptr, 0); w.feed_all(); vk::drain();
  x->pump(); x->check();
  for (int step = 0; step < VK_STEPS; step++) {
    uint32_t ev = vk_choose(3);
    switch (ev) {
      case 0: { // a subscription, answered with a symbolic admissible code (success 0..2 or failure)
                if (x->nsub >= 2 || !w.connected()) vk_assume(0); x->nsub++;
                int op = w.subscribe({{"f", subscribe_options{}}}); vk::drain();
                auto* s = vk::pending_write(); vk_assert(s != nullptr, "SUBSCRIBE write"); w.finish_write(s, s->wdata.size(), {}); vk::drain();
                const pkt_rec* p = w.last_of(ref::SUBSCRIBE); static const uint8_t codes[] = {0x00, 0x02, 0x80, 0x87}; uint8_t code = codes[vk_choose(4)];
                w.suback(ref::SUBACK, p->pid, &code, 1); w.feed_all(); vk::drain();
                vk_assert(w.ops[op].done == 1 && w.ops[op].ec == 0, "subscribe completes");
                if (code <= 2) { x->sub_since_report = true; vk_reach("subscribed"); } else vk_reach("subscription-refused");
                break; }
      case 1: { // connection loss, reconnect with Session Present b
                if (x->nreconn >= VK_RECONNECTS || !w.connected()) vk_assume(0); x->nreconn++;
                w.drop_connection(); vk::drain(); bool ok2 = w.establish(); vk_assert(ok2, "client reconnects");
                // the broker may first refuse the CONNECT once or twice (CONNACK with a failure code always has Session Present 0)
                for (int refusals = (int)vk_choose(VK_REFUSALS + 1); refusals > 0; refusals--) {
                  w.send_connack(false, 0x88, nullptr, 0); w.feed_all(); vk::drain();
                  bool ok3 = w.establish(); vk_assert(ok3, "client tries again after a refused CONNECT"); vk_reach("connect-refused");
                }
                bool sp = vk_choose(2);
                if (!sp && x->sub_since_report) { x->expected_reports++; x->sub_since_report = false; vk_reach("session-lost-with-subscription"); }
                else if (!sp) vk_reach("session-lost-without-subscription");
                if (w.epoch < 8) x->expected_at_epoch[w.epoch] = x->expected_reports;
                w.send_connack(sp, 0, nullptr, 0); w.feed_all(); vk::drain();
                break; }
      default: { // the broker sends a QoS 0 message whose payload names the connection it was sent on
                if (x->nmsg >= 2 || !w.connected()) vk_assume(0); x->nmsg++;
                uint8_t payload[1] = {(uint8_t)w.epoch}; w.publish_to_client("m", 1, payload, 1, 0, false, 0); w.feed_all(); vk::drain(); vk_reach("message");
                break; }
    }
    x->pump();
    vk_event(10 + ev, w.nmsgs);
    x->check();
  }
}
