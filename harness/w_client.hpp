// Whole-client scaffold: the real mqtt_client<asio::ip::tcp::socket> (compiled against the shadow headers) driven by a
// harness-controlled world, a reference broker model and wire/application monitors. Used by the C01-C15 harnesses.
#ifndef VK_W_CLIENT_HPP
#define VK_W_CLIENT_HPP
#include "vk_api.h"
#include "ref_mqtt.hpp"
#include <boost/mqtt5/mqtt_client.hpp>
#include <boost/asio/ip/tcp.hpp>
#ifdef VK_LAYERED
#include "vk_layered.hpp"
#endif
#include <boost/asio/bind_cancellation_slot.hpp>
#include <boost/asio/cancellation_signal.hpp>
template class std::basic_string<char>;

// the seed of the reconnect backoff generator (std::time(0)) is fixed in whole-client harnesses; the generator is examined in C10
extern "C" { __attribute__((used)) inline int64_t vk_time_fixed = 1700000000; }

namespace wc {
namespace asio = boost::asio;
using namespace boost::mqtt5;
#ifdef VK_LAYERED
using stream_t = vk::layered_stream;       // takes the code paths of TLS / WebSocket streams (shutdown_op with the connection lock)
#else
using stream_t = asio::ip::tcp::socket;
#endif
using client_t = mqtt_client<stream_t>;
using vk::error_code;

enum { MAXPK = 24, MAXOPS = 6, RXCAP = 512, OUTCAP = 256, MAXMSG = 8 };

// one packet the broker received from the client (decoded by the reference decoder)
struct pkt_rec { uint8_t type, qos, rc; bool dup, retain, has_rc; uint16_t pid; int epoch; uint32_t off, len; int write_no; int aux; };
// one user operation
struct op_rec { int kind; int done; int ec; int rc; int rcs[3]; int nrcs; bool inline_completion; int64_t t_done; uint16_t pid_seen; bool has_rs; uint8_t rs_len, rs1; int nuser; };
// one message handed to the application by async_receive
struct msg_rec { int ec; bool session_expired; uint8_t topic0, topic1; uint8_t payload0, payload1; uint32_t tlen, plen; bool has_exp; uint32_t exp; int nprops; };

// a configured authenticator (Enhanced Authentication, method "m"): initial data, answer to a challenge, optional failure
struct vk_authenticator {
  uint8_t d_init, d_reply; bool fail_at_challenge;
  template <typename CompletionToken>
  decltype(auto) async_auth(auth_step_e step, std::string data, CompletionToken&& token) {
    using Signature = void (error_code, std::string);
    auto initiate = [this](auto handler, auth_step_e step, std::string) {
      error_code ec; std::string out;
      if (step == auth_step_e::client_initial) out = std::string(1, (char)d_init);
      else if (step == auth_step_e::server_challenge) { out = std::string(1, (char)d_reply); if (fail_at_challenge) ec = asio::error::no_recovery; }
      asio::post(vk::executor{}, asio::prepend(std::move(handler), ec, out));
    };
    return asio::async_initiate<CompletionToken, Signature>(initiate, token, step, std::move(data));
  }
  std::string_view method() const { return "m"; }
};

struct W {
  client_t* cp = new client_t(vk::executor{});
  client_t& c = *cp;
  void destroy_client() { in_api = true; delete cp; cp = nullptr; in_api = false; }
  // ---- broker side
  int epoch = 0;                 // number of successfully established TCP connections
  bool connack_sent = false;     // in the current epoch
  uint8_t rx[RXCAP]; size_t rx_n = 0, rx_parsed = 0;       // bytes received on the current connection
  uint8_t out[OUTCAP]; size_t out_n = 0, out_pos = 0;      // bytes queued towards the client on the current connection
  pkt_rec pk[MAXPK]; int npk = 0;
  int writes_completed = 0;
  bool client_wrote_garbage = false;
  int rx_leniency = 0;          // hostile-input harnesses: the client echoes a packet identifier 0 it was sent (ref::L_PID0)
  // ---- application side
  op_rec ops[MAXOPS]; int nops = 0;
  asio::cancellation_signal sig[MAXOPS];
  msg_rec msgs[MAXMSG]; int nmsgs = 0; int receive_pending = 0;
  int run_done = 0; int run_ec = -1;
  bool in_api = false;
  int64_t last_backoff_ms = -1;

  // ------------------------------------------------------------ network plumbing
  void new_connection() { epoch++; connack_sent = false; rx_n = rx_parsed = 0; out_n = out_pos = 0; }
  // the broker receives the first n bytes of the pending write; ec is what the client's write_some is told
  void finish_write(vk::sock_rec* s, size_t n, error_code ec) {
    if (n > s->wdata.size()) n = s->wdata.size();
#ifdef VK_DEBUG_IO
    fprintf(stderr, "W[%d] sock%d %zu/%zu ec=%d:", epoch, s->id, n, s->wdata.size(), ec.value()); for (size_t i = 0; i < s->wdata.size(); i++) fprintf(stderr, " %02x", (uint8_t)s->wdata[i]); fprintf(stderr, "\n");
#endif
    if (!s->delivered_early) { for (size_t i = 0; i < n && rx_n < RXCAP; i++) rx[rx_n++] = (uint8_t)s->wdata[i]; }
    vk_assert(rx_n < RXCAP, "harness: rx capacity");
    writes_completed++;
    vk::complete_write(s, ec ? 0 : n, ec);
    parse_rx();
  }
  // the bytes of the write in progress reach the broker now; the client learns about the completion of its write later
  // (the broker can therefore answer before the client has processed the write completion: the "fast reply" path)
  void deliver_early(vk::sock_rec* s) {
    for (size_t i = 0; i < s->wdata.size() && rx_n < RXCAP; i++) rx[rx_n++] = (uint8_t)s->wdata[i];
    vk_assert(rx_n < RXCAP, "harness: rx capacity"); s->delivered_early = true;
    int saved = writes_completed; writes_completed++; parse_rx(); writes_completed = saved;
  }
  // the client's write succeeds locally but the bytes never reach the broker (connection dies with data in flight)
  void lose_write(vk::sock_rec* s) { writes_completed++; vk::complete_write(s, s->wdata.size(), {}); }
  void parse_rx() {
    while (rx_parsed < rx_n) {
      ref::packet k; int rv = ref::decode(rx + rx_parsed, rx_n - rx_parsed, k, rx_leniency);
      if (rv == ref::INCOMPLETE) break;
      if (rv == ref::BAD) { client_wrote_garbage = true; vk_assert(false, "client wrote bytes that are not a well-formed MQTT 5 packet (reference decoder)"); rx_parsed = rx_n; break; }
      vk_assert(npk < MAXPK, "harness: packet log capacity");
      pkt_rec& r = pk[npk++];
      r.type = k.type; r.qos = k.type == ref::PUBLISH ? k.qos : 0; r.dup = k.type == ref::PUBLISH && k.dup; r.retain = k.type == ref::PUBLISH && k.retain;
      r.rc = k.rc; r.has_rc = k.has_rc; r.pid = k.pid; r.epoch = epoch; r.off = (uint32_t)rx_parsed; r.len = k.total; r.write_no = writes_completed; r.aux = -1;
      rx_parsed += k.total;
      vk_event(100 + k.type, ((uint64_t)epoch << 32) | ((uint64_t)r.qos << 24) | ((uint64_t)r.dup << 20) | ((uint64_t)r.rc << 16) | k.pid);
    }
  }
  bool redecode(const pkt_rec& r, ref::packet& k) const { return r.epoch == epoch && ref::decode(rx + r.off, r.len, k) == ref::OK; }
  ref::wr outw() { return ref::wr{out, OUTCAP, out_n, false}; }
  void commit(const ref::wr& w) { vk_assert(!w.ovf, "harness: out capacity"); out_n = w.n; }
  size_t out_avail() const { return out_n - out_pos; }
  // hand at most n queued bytes to the pending read
  size_t feed(size_t n) {
    vk::sock_rec* s = vk::pending_read(); if (!s || out_avail() == 0) return 0;
    if (n > out_avail()) n = out_avail();
#ifdef VK_DEBUG_IO
    fprintf(stderr, "R[%d] sock%d shut=%d:", epoch, s->id, (int)s->shut); for (size_t i = 0; i < n; i++) fprintf(stderr, " %02x", out[out_pos + i]); fprintf(stderr, "\n");
#endif
    size_t k = vk::complete_read(s, reinterpret_cast<const char*>(out + out_pos), n, {});
    out_pos += k; return k;
  }
  void feed_all() { int guard = 0; while (out_avail() && vk::pending_read() && guard++ < 64) { feed(out_avail()); vk::drain(); } }

  // let virtual time pass until timer t fires: timers with earlier deadlines (e.g. the 3 s sentry) fire first
  bool fire_until(vk::timer_rec* t) {
    for (int g = 0; g < 64 && t->armed; g++) {
      if (vk::timer_can_fire(t)) { vk::timer_fire(t); vk::drain(); return true; }
      vk::timer_rec* best = nullptr; for (auto* o : vk::world().timers) if (o != t && o->armed && vk::timer_can_fire(o)) { best = o; break; }
      if (!best) return false; vk::timer_fire(best); vk::drain();
    }
    return false;
  }
  // ------------------------------------------------------------ bring the client to "connected, CONNACK processed"
  void start(const char* hosts = "a") {
    c.brokers(hosts, 1883);
    in_api = true;
    c.async_run([this](error_code ec) { run_done++; run_ec = ec.value(); });
    in_api = false;
    vk::drain();
  }
  // async_run with a cancellation slot: emitting the signal stops the client through client_service::cancel() on the SAME service
  // object (mqtt_client::cancel() swaps in a fresh one), which async_run may then be called on again
  asio::cancellation_signal run_sig;
  void run_cancellable() {
    in_api = true;
    c.async_run(asio::bind_cancellation_slot(run_sig.slot(), [this](error_code ec) { run_done++; run_ec = ec.value(); }));
    in_api = false;
  }
  void cancel_run() { in_api = true; run_sig.emit(asio::cancellation_type::terminal); in_api = false; }
  // drive (backoff timer) + resolve + TCP connect + CONNECT write of one attempt; false if no attempt is in progress
  bool establish() {
    for (int guard = 0; guard < 4; guard++) {
      if (vk::pending_resolve() || vk::pending_connect()) break;
      // a reconnect that wrapped around the broker list pauses on the connect timer (timer #1 of the client) first
      vk::timer_rec* t = vk::world().timers.size() > 1 ? vk::world().timers[1] : nullptr;
      if (t && t->armed) { last_backoff_ms = t->dur_ms; if (!fire_until(t)) break; } else break;
    }
    if (auto* r = vk::pending_resolve()) { vk::complete_resolve(r, {}, 1); vk::drain(); }
    vk::sock_rec* s = vk::pending_connect(); if (!s) return false;
    vk::complete_connect(s, {}); new_connection(); vk::drain();
    vk::sock_rec* w = vk::pending_write(); if (!w) return false;
    finish_write(w, w->wdata.size(), {}); vk::drain();
    return true;
  }
  // a connection attempt that fails before the client is connected again (C02: "refused or timed-out connection attempts"):
  // 1 TCP connect refused, 2 CONNECT answered with a failing CONNACK, 3 silent broker (the 5 s handshake timer fires), 4 resolve fails.
  // Returns false if no attempt was in progress.
  bool failed_attempt(int how) {
    for (int guard = 0; guard < 4; guard++) {
      if (vk::pending_resolve() || vk::pending_connect()) break;
      vk::timer_rec* t = vk::world().timers.size() > 1 ? vk::world().timers[1] : nullptr;
      if (t && t->armed) { last_backoff_ms = t->dur_ms; if (!fire_until(t)) break; } else break;
    }
    vk::timer_rec* ct = vk::world().timers.size() > 1 ? vk::world().timers[1] : nullptr;
    if (how == 4) { auto* r = vk::pending_resolve(); if (!r) return false; vk::complete_resolve(r, asio::error::host_not_found, 0); vk::drain(); return true; }
    if (auto* r = vk::pending_resolve()) { vk::complete_resolve(r, {}, 1); vk::drain(); }
    vk::sock_rec* s = vk::pending_connect(); if (!s) return false;
    if (how == 1) { vk::complete_connect(s, asio::error::connection_refused); vk::drain(); return true; }
    vk::complete_connect(s, {}); new_connection(); vk::drain();
    vk::sock_rec* wr = vk::pending_write(); if (!wr) return false;
    finish_write(wr, wr->wdata.size(), {}); vk::drain();
    if (how == 2) { send_connack(false, 0x88, nullptr, 0); feed_all(); vk::drain(); connack_sent = false; out_n = out_pos = 0; return true; }
    bool f = ct && fire_until(ct); vk_assert(f, "harness: the handshake timer fires when the broker stays silent");
    return true;
  }
  void send_connack(bool session_present, uint8_t rc, const uint8_t* props, size_t plen) {
    ref::wr w = outw(); ref::enc_connack(w, session_present, rc, props, plen); commit(w); connack_sent = true;
  }
  void connect_ok(bool session_present = false, const uint8_t* props = nullptr, size_t plen = 0) {
    bool ok = establish(); vk_assert(ok, "harness: connection attempt in progress");
    send_connack(session_present, 0, props, plen); feed_all(); vk::drain();
  }
  bool connected() const { auto* s = vk::pending_read(); return s && s->connected && !s->shut && connack_sent && out_avail() == 0; }
  bool connected_or_writing() const { auto* s = vk::pending_read(); return s && s->connected && !s->shut && connack_sent; }
  // the client is trying to (re)connect: a resolve or TCP connect is pending, or it pauses on the backoff timer
  bool attempt_in_progress() const {
    if (vk::pending_resolve() || vk::pending_connect()) return true;
    vk::timer_rec* t = vk::world().timers.size() > 1 ? vk::world().timers[1] : nullptr;
    return t && t->armed && !vk::pending_read();
  }

  // layered stream only: the async_shutdown of the stream that was swapped out completes (the peer closed its side)
#ifdef VK_LAYERED
  bool shutdown_pending() const { return vk::pending_shutdown() != nullptr; }
  bool finish_shutdown(error_code ec = {}) { if (auto* r = vk::pending_shutdown()) { vk::complete_shutdown(r, ec); vk::drain(); return true; } return false; }
#else
  bool shutdown_pending() const { return false; }
  bool finish_shutdown(error_code = {}) { return false; }
#endif
  // ------------------------------------------------------------ user operations
  int new_op(int kind) { vk_assert(nops < MAXOPS, "harness: op capacity"); op_rec& o = ops[nops]; o = op_rec{}; o.kind = kind; o.ec = -1; o.rc = -1; return nops++; }
  // what the application does inside the completion handler of operation i: 0 nothing, 1 calls cancel()
  int act[MAXOPS] = {}; bool acted = false;
  void done(int i, error_code ec, int rc) {
    op_rec& o = ops[i]; o.done++; o.ec = ec.value(); o.rc = rc; o.inline_completion = in_api; o.t_done = vk_now_ms;
    if (act[i] == 1 && cp) { act[i] = 0; acted = true; c.cancel(); }
  }
  template <qos_e q> int publish(std::string topic, std::string payload, retain_e retain = retain_e::no, publish_props props = {}) {
    int i = new_op(int(q)); in_api = true;
    auto slot = sig[i].slot();
    if constexpr (q == qos_e::at_most_once)
      c.async_publish<q>(std::move(topic), std::move(payload), retain, props, asio::bind_cancellation_slot(slot, [this, i](error_code ec) { done(i, ec, 0); }));
    else
      c.async_publish<q>(std::move(topic), std::move(payload), retain, props, asio::bind_cancellation_slot(slot, [this, i](error_code ec, reason_code rc, auto props) {
        // properties of the final acknowledgement as handed to the application (Reason String, User Property)
        op_rec& o = ops[i]; const auto& rs = props[prop::reason_string]; o.has_rs = rs.has_value(); o.rs_len = rs ? (uint8_t)rs->size() : 0; o.rs1 = rs && rs->size() > 1 ? (uint8_t)(*rs)[1] : 0;
        o.nuser = (int)props[prop::user_property].size(); done(i, ec, rc.value()); }));
    in_api = false; return i;
  }
  int subscribe(std::vector<subscribe_topic> topics, subscribe_props props = {}) {
    int i = new_op(10); in_api = true;
    c.async_subscribe(std::move(topics), props, asio::bind_cancellation_slot(sig[i].slot(), [this, i](error_code ec, std::vector<reason_code> rcs, suback_props) {
      op_rec& o = ops[i]; o.nrcs = (int)rcs.size(); for (size_t k = 0; k < rcs.size() && k < 3; k++) o.rcs[k] = rcs[k].value(); done(i, ec, rcs.empty() ? -1 : rcs[0].value()); }));
    in_api = false; return i;
  }
  int unsubscribe(std::vector<std::string> topics, unsubscribe_props props = {}) {
    int i = new_op(11); in_api = true;
    c.async_unsubscribe(std::move(topics), props, asio::bind_cancellation_slot(sig[i].slot(), [this, i](error_code ec, std::vector<reason_code> rcs, unsuback_props) {
      op_rec& o = ops[i]; o.nrcs = (int)rcs.size(); for (size_t k = 0; k < rcs.size() && k < 3; k++) o.rcs[k] = rcs[k].value(); done(i, ec, rcs.empty() ? -1 : rcs[0].value()); }));
    in_api = false; return i;
  }
  int disconnect(disconnect_rc_e rc = disconnect_rc_e::normal_disconnection, disconnect_props props = {}) {
    int i = new_op(12); in_api = true;
    c.async_disconnect(rc, props, asio::bind_cancellation_slot(sig[i].slot(), [this, i](error_code ec) { done(i, ec, 0); }));
    in_api = false; return i;
  }
  void receive() {
    receive_pending++; in_api = true;
    c.async_receive([this](error_code ec, std::string topic, std::string payload, publish_props props) {
      receive_pending--; vk_assert(nmsgs < MAXMSG, "harness: message capacity"); msg_rec& m = msgs[nmsgs++];
      m.ec = ec.value(); m.session_expired = (ec == boost::mqtt5::client::error::session_expired); m.tlen = (uint32_t)topic.size(); m.plen = (uint32_t)payload.size();
      m.topic0 = topic.size() > 0 ? (uint8_t)topic[0] : 0; m.topic1 = topic.size() > 1 ? (uint8_t)topic[1] : 0;
      m.payload0 = payload.size() > 0 ? (uint8_t)payload[0] : 0; m.payload1 = payload.size() > 1 ? (uint8_t)payload[1] : 0;
      m.has_exp = props[prop::message_expiry_interval].has_value(); m.exp = m.has_exp ? *props[prop::message_expiry_interval] : 0;
      m.nprops = (props[prop::payload_format_indicator].has_value() ? 1 : 0) + (m.has_exp ? 1 : 0) + (props[prop::content_type].has_value() ? 1 : 0) + (props[prop::response_topic].has_value() ? 1 : 0) +
                 (props[prop::correlation_data].has_value() ? 1 : 0) + (int)props[prop::subscription_identifier].size() + (props[prop::topic_alias].has_value() ? 1 : 0) + (int)props[prop::user_property].size();
    });
    in_api = false;
  }
  void cancel_op(int i) { in_api = true; sig[i].emit(asio::cancellation_type::total); in_api = false; }

  // ------------------------------------------------------------ broker replies
  void ack(uint8_t type, uint16_t pid, uint8_t rc = 0, int form = 0) { ref::wr w = outw(); ref::enc_ack(w, type, pid, rc, form); commit(w); }
  // acknowledgement carrying a two-character Reason String "r<c>"
  void ack_with_reason(uint8_t type, uint16_t pid, uint8_t rc, uint8_t c) { ref::wr w = outw(); ref::enc_ack_props(w, type, pid, rc, c); commit(w); }
  void suback(uint8_t type, uint16_t pid, const uint8_t* codes, size_t n) { ref::wr w = outw(); ref::enc_suback(w, type, pid, codes, n); commit(w); }
  void publish_to_client(const void* topic, size_t tl, const void* payload, size_t pl, uint8_t qos, bool dup, uint16_t pid) {
    ref::wr w = outw(); ref::enc_publish(w, topic, tl, payload, pl, qos, dup, false, pid, nullptr, 0); commit(w);
  }
  // the connection is lost: the pending read (if any) fails with ec, a pending write too
  void drop_connection(error_code ec = asio::error::connection_reset) {
    if (auto* s = vk::pending_write()) { vk::complete_write(s, 0, ec); writes_completed++; }
    if (auto* s = vk::pending_read()) vk::complete_read(s, nullptr, 0, ec);
    out_n = out_pos = 0;
  }
  // ... in one of the ways a TCP connection dies: reset, orderly close by the peer (eof on read, broken pipe on write), abort,
  // or noticed by the reading side only while a write is still in flight (the client's reconnect then closes the old stream, which aborts that write)
  void drop_connection_any(int kind = 9) {
    switch (kind == 9 ? (int)vk_choose(4) : kind) {
      case 0: drop_connection(asio::error::connection_reset); break;
      case 1: if (auto* s = vk::pending_write()) { vk::complete_write(s, 0, asio::error::broken_pipe); writes_completed++; }
              if (auto* s = vk::pending_read()) vk::complete_read(s, nullptr, 0, asio::error::eof);
              out_n = out_pos = 0; break;
      case 2: drop_connection(asio::error::connection_aborted); break;
      default: if (auto* s = vk::pending_read()) { if (vk::pending_write()) writes_completed++; vk::complete_read(s, nullptr, 0, asio::error::connection_reset); } else drop_connection(asio::error::connection_reset);
               out_n = out_pos = 0; break;
    }
  }
  // last packet of a type / all packets
  const pkt_rec* last_of(uint8_t type) const { for (int i = npk - 1; i >= 0; i--) if (pk[i].type == type) return &pk[i]; return nullptr; }
  int count_of(uint8_t type, int ep = -1) const { int n = 0; for (int i = 0; i < npk; i++) if (pk[i].type == type && (ep < 0 || pk[i].epoch == ep)) n++; return n; }
};
inline bool all_quiet() { return vk::world().q_head == nullptr; }
} // namespace wc
#endif
