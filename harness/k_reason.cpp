// C20: to_reason_code<cat>(byte) against the MQTT 5.0 reason-code tables (OASIS Standard, 7 March 2019).
#include "vk_api.h"
#include <boost/mqtt5/reason_codes.hpp>
using namespace boost::mqtt5;
using cat_e = reason_codes::category;

// Reference tables, transcribed from the specification. L = listed for the packet type, S = a Server may send it there.
namespace ref {
struct entry { uint8_t code; bool server; };
// 3.2.2.2 Connect Reason Code
constexpr entry connack[] = {{0x00,1},{0x80,1},{0x81,1},{0x82,1},{0x83,1},{0x84,1},{0x85,1},{0x86,1},{0x87,1},{0x88,1},{0x89,1},{0x8A,1},{0x8C,1},{0x90,1},{0x95,1},{0x97,1},{0x99,1},{0x9A,1},{0x9B,1},{0x9C,1},{0x9D,1},{0x9F,1}};
// 3.4.2.1 PUBACK Reason Code / 3.5.2.1 PUBREC Reason Code
constexpr entry puback[] = {{0x00,1},{0x10,1},{0x80,1},{0x83,1},{0x87,1},{0x90,1},{0x91,1},{0x97,1},{0x99,1}};
// 3.6.2.1 PUBREL Reason Code / 3.7.2.1 PUBCOMP Reason Code
constexpr entry pubrel[] = {{0x00,1},{0x92,1}};
// 3.9.3 SUBACK Payload
constexpr entry suback[] = {{0x00,1},{0x01,1},{0x02,1},{0x80,1},{0x83,1},{0x87,1},{0x8F,1},{0x91,1},{0x97,1},{0x9E,1},{0xA1,1},{0xA2,1}};
// 3.11.3 UNSUBACK Payload
constexpr entry unsuback[] = {{0x00,1},{0x11,1},{0x80,1},{0x83,1},{0x87,1},{0x8F,1},{0x91,1}};
// 3.14.2.1 Disconnect Reason Code ("sent by": 0x04 Client only)
constexpr entry disconnect[] = {{0x00,1},{0x04,0},{0x80,1},{0x81,1},{0x82,1},{0x83,1},{0x87,1},{0x89,1},{0x8B,1},{0x8D,1},{0x8E,1},{0x8F,1},{0x90,1},{0x93,1},{0x94,1},{0x95,1},{0x96,1},{0x97,1},{0x98,1},{0x99,1},{0x9A,1},{0x9B,1},{0x9C,1},{0x9D,1},{0x9E,1},{0x9F,1},{0xA0,1},{0xA1,1},{0xA2,1}};
// 3.15.2.1 Authenticate Reason Code (0x19 Re-authenticate: Client only)
constexpr entry auth[] = {{0x00,1},{0x18,1},{0x19,0}};

template <size_t N> inline void lookup(const entry (&t)[N], uint8_t c, bool& listed, bool& server) {
  listed = false; server = false;
  for (size_t i = 0; i < N; i++) if (t[i].code == c) { listed = true; server = t[i].server; }
}
}

template <cat_e cat, size_t N>
static void check_cat(const ref::entry (&table)[N], uint8_t c, uint32_t tag) {
  bool listed, server; ref::lookup(table, c, listed, server);
  auto r = to_reason_code<cat>(c);
  vk_event(tag, r.has_value() ? 0x100u + r->value() : 0u);
  if (r.has_value()) {
    vk_reach("accepted");
    vk_assert(listed, "accepted reason code is not listed by MQTT 5 for this packet type");
    vk_assert(r->value() == c, "accepted reason code is reported with a different value");
  } else vk_reach("rejected");
  if (server) vk_assert(r.has_value(), "reason code a Server may send for this packet type is rejected");
}

extern "C" void h_rc(void) {
  uint32_t k = vk_choose(9);
  uint8_t c = vk_sym_u8();
  switch (k) {
    case 0: check_cat<cat_e::connack>(ref::connack, c, 0); break;
    case 1: check_cat<cat_e::puback>(ref::puback, c, 1); break;
    case 2: check_cat<cat_e::pubrec>(ref::puback, c, 2); break;
    case 3: check_cat<cat_e::pubrel>(ref::pubrel, c, 3); break;
    case 4: check_cat<cat_e::pubcomp>(ref::pubrel, c, 4); break;
    case 5: check_cat<cat_e::suback>(ref::suback, c, 5); break;
    case 6: check_cat<cat_e::unsuback>(ref::unsuback, c, 6); break;
    case 7: check_cat<cat_e::disconnect>(ref::disconnect, c, 7); break;
    default: check_cat<cat_e::auth>(ref::auth, c, 8); break;
  }
}
