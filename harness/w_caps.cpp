// C15: capabilities announced in CONNACK are honoured by publish / subscribe / disconnect on the real client.
// C16 (request level): property values at and around their bounds are accepted exactly when well-formed.
#include "w_client.hpp"
using namespace wc;

enum { E_MALFORMED = 100, E_TOO_LARGE = 101, E_INVALID_TOPIC = 104, E_QOS = 105, E_RETAIN = 106, E_ALIAS = 107, E_WILDCARD = 108, E_SUBID = 109, E_SHARED = 110 };

struct caps_t { bool has_mps; uint32_t mps; bool has_mq; uint8_t mq; bool has_ra; uint8_t ra; bool has_tam; uint16_t tam; bool has_wsa; uint8_t wsa; bool has_ssa; uint8_t ssa; bool has_sia; uint8_t sia; };

// the client's OWN limits, sent in CONNECT, bind the broker, not the client: they must not leak into what the client may send
static void own_limits(W& w) {
  int kind = (int)vk_choose(3); if (kind == 0) return;
  // ... or the client is configured with an authenticator: the CONNACK is then processed through the authenticator's final step,
  // and the capabilities it announces apply just the same
  if (kind == 2) { w.c.authenticator(vk_authenticator{1, 2, false}); vk_reach("authenticator-configured"); return; }
  uint16_t tam = vk_sym_u16(); vk_assume(tam >= 1); uint16_t rm = vk_sym_u16(); vk_assume(rm >= 1); uint32_t mps = vk_sym_u32(); vk_assume(mps >= 16 && mps <= 64);
  connect_props cp; cp[prop::topic_alias_maximum] = tam; cp[prop::receive_maximum] = rm; cp[prop::maximum_packet_size] = mps;
  w.c.connect_properties(cp); vk_reach("own-limits-configured");
}
static void connack_with(W& w, caps_t& c, int profile) {
  // profile 0: nothing announced (defaults), 1: everything announced with symbolic values
  c = caps_t{};
  if (profile == 1) {
    c.has_mps = c.has_mq = c.has_ra = c.has_tam = c.has_wsa = c.has_ssa = c.has_sia = true;
    c.mps = vk_sym_u32(); vk_assume(c.mps >= 16 && c.mps <= 64);
    c.mq = vk_sym_u8() & 1; c.ra = vk_sym_u8() & 1; c.tam = vk_sym_u16(); c.wsa = vk_sym_u8() & 1; c.ssa = vk_sym_u8() & 1; c.sia = vk_sym_u8() & 1;
  }
  uint8_t p[40]; ref::wr o = {p, sizeof p, 0, false};
  if (c.has_mps) ref::p_u32(o, 0x27, c.mps); if (c.has_mq) ref::p_byte(o, 0x24, c.mq); if (c.has_ra) ref::p_byte(o, 0x25, c.ra); if (c.has_tam) ref::p_u16(o, 0x22, c.tam);
  if (c.has_wsa) ref::p_byte(o, 0x28, c.wsa); if (c.has_ssa) ref::p_byte(o, 0x2A, c.ssa); if (c.has_sia) ref::p_byte(o, 0x29, c.sia);
  w.send_connack(false, 0, p, o.n); w.feed_all(); vk::drain();
}

// after a rejected request nothing may have been written and no packet identifier may be in use: the next QoS 1 publish gets id 1
static void check_nothing_consumed(W& w, int writes_before) {
  vk_assert(vk::world().writes_started == writes_before && !vk::pending_write(), "a rejected request put something on the wire");
  int b = w.publish<qos_e::at_least_once>("z", "z"); vk::drain();
  if (w.ops[b].done) return;          // the probe itself may be refused by Maximum QoS 0
  auto* s = vk::pending_write(); vk_assert(s != nullptr, "probe publish is written");
  ref::packet k; int rv = ref::decode((const uint8_t*)s->wdata.data(), s->wdata.size(), k); vk_assert(rv == ref::OK && k.type == ref::PUBLISH, "probe is a PUBLISH");
  vk_assert(k.pid == 1, "a rejected request consumed a packet identifier");
}

extern "C" void h_caps_publish(void) {
  W* wp = new W(); W& w = *wp; caps_t c;
  own_limits(w); w.start(); bool ok = w.establish(); vk_assert(ok, "first connection"); connack_with(w, c, vk_choose(2));
  // ---- one request touching the limits
  uint8_t q = (uint8_t)vk_choose(3); bool retain = vk_choose(2); bool has_alias = vk_choose(2); uint16_t alias = has_alias ? vk_sym_u16() : 0;
  size_t plen = vk_choose(3) * 24;                 // payload of 0 / 24 / 48 bytes: below, around and above a Maximum Packet Size of 16..64
  publish_props pp; if (has_alias) pp[prop::topic_alias] = alias;
  std::string payload(plen, 'x');
  int writes_before = vk::world().writes_started;
  int op = q == 0 ? w.publish<qos_e::at_most_once>("t", payload, retain ? retain_e::yes : retain_e::no, pp)
         : q == 1 ? w.publish<qos_e::at_least_once>("t", payload, retain ? retain_e::yes : retain_e::no, pp)
                  : w.publish<qos_e::exactly_once>("t", payload, retain ? retain_e::yes : retain_e::no, pp);
  vk::drain();
  // ---- reference model of the capability rules (MQTT 5.0 3.2.2.3.4 Maximum QoS, .5 Retain Available, .6 Maximum Packet Size, .8 Topic Alias Maximum)
  uint8_t max_qos = c.has_mq ? c.mq : 2; uint8_t ret_av = c.has_ra ? c.ra : 1; uint16_t tam = c.has_tam ? c.tam : 0;
  size_t wire = 1 + 1 + (2 + 1) + (q ? 2 : 0) + 1 + (has_alias ? 3 : 0) + plen; if (wire - 2 >= 128) wire += 1;     // fixed header + topic + id + properties + payload
  bool v_qos = q > max_qos, v_ret = retain && !ret_av, v_alias = has_alias && (alias == 0 || alias > tam), v_size = c.has_mps && wire > c.mps;
  const op_rec& o = w.ops[op];
  if (v_qos || v_ret || v_alias || v_size) {
    vk_assert(o.done == 1, "a request that violates an announced capability did not complete immediately");
    vk_assert((v_qos && o.ec == E_QOS) || (v_ret && o.ec == E_RETAIN) || (v_alias && (o.ec == E_ALIAS || (alias == 0 && o.ec == E_MALFORMED))) || (v_size && o.ec == E_TOO_LARGE),
              "a request that violates an announced capability completed with another code than the documented one");
    check_nothing_consumed(w, writes_before);
    vk_reach(v_size ? "rejected-size" : v_qos ? "rejected-qos" : v_ret ? "rejected-retain" : "rejected-alias");
  } else {
    vk_assert(!o.done || o.ec == 0, "a request within all announced capabilities was refused");
    auto* s = vk::pending_write(); vk_assert(s != nullptr, "an admissible PUBLISH is written");
    ref::packet k; int rv = ref::decode((const uint8_t*)s->wdata.data(), s->wdata.size(), k); vk_assert(rv == ref::OK && k.type == ref::PUBLISH, "PUBLISH on the wire");
    vk_assert(k.total == wire, "harness: size model");
    if (c.has_mps) vk_assert(k.total <= c.mps, "packet on the wire exceeds the broker's Maximum Packet Size");
    vk_assert(k.qos <= max_qos && (!k.retain || ret_av), "packet on the wire exceeds Maximum QoS / Retain Available");
    const ref::prop_t* a = k.props.find(0x23); if (a) vk_assert(a->num >= 1 && a->num <= tam, "Topic Alias on the wire exceeds Topic Alias Maximum");
    vk_reach("accepted");
  }
}

extern "C" void h_caps_subscribe(void) {
  W* wp = new W(); W& w = *wp; caps_t c;
  own_limits(w); w.start(); bool ok = w.establish(); vk_assert(ok, "first connection"); connack_with(w, c, vk_choose(2));
  int kind = vk_choose(5); bool has_id = vk_choose(2);
  static const char* filters[] = {"a/b", "a/+", "a/#", "$share/g/a", "$share/g/a/#"};
  bool wildcard = kind == 1 || kind == 2 || kind == 4, shared = kind >= 3;
  subscribe_props sp; if (has_id) sp[prop::subscription_identifier] = 7;
  int writes_before = vk::world().writes_started;
  int op = vk_choose(2) ? w.subscribe({{filters[kind], subscribe_options{}}}, sp) : w.subscribe({{"a", subscribe_options{}}, {filters[kind], subscribe_options{}}}, sp);
  vk::drain();
  uint8_t wsa = c.has_wsa ? c.wsa : 1, ssa = c.has_ssa ? c.ssa : 1, sia = c.has_sia ? c.sia : 1;
  bool v_w = wildcard && !wsa, v_s = shared && !ssa, v_i = has_id && !sia;
  const op_rec& o = w.ops[op];
  if (v_w || v_s || v_i) {
    vk_assert(o.done == 1, "a subscription that uses a disabled feature did not complete immediately");
    vk_assert((v_w && o.ec == E_WILDCARD) || (v_s && o.ec == E_SHARED) || (v_i && o.ec == E_SUBID), "a subscription that uses a disabled feature completed with another code than the documented one");
    check_nothing_consumed(w, writes_before);
    vk_reach(v_s ? "rejected-shared" : v_w ? "rejected-wildcard" : "rejected-subid");
  } else {
    auto* s = vk::pending_write();
    if (c.has_mps && !s) { vk_assert(o.done == 1 && o.ec == E_TOO_LARGE, "an admissible SUBSCRIBE was refused"); check_nothing_consumed(w, writes_before); vk_reach("rejected-size"); return; }
    vk_assert(s != nullptr && (!o.done), "an admissible SUBSCRIBE is written");
    ref::packet k; int rv = ref::decode((const uint8_t*)s->wdata.data(), s->wdata.size(), k); vk_assert(rv == ref::OK && k.type == ref::SUBSCRIBE, "SUBSCRIBE on the wire");
    if (c.has_mps) vk_assert(k.total <= c.mps, "packet on the wire exceeds the broker's Maximum Packet Size");
    vk_reach("accepted");
  }
}

// oversized DISCONNECT drops its properties instead of failing
extern "C" void h_caps_disconnect(void) {
  W* wp = new W(); W& w = *wp; caps_t c;
  w.start(); bool ok = w.establish(); vk_assert(ok, "first connection"); connack_with(w, c, 1);
  // Reason String sized so that the whole DISCONNECT is far below, one below, exactly at, one above or far above the limit
  size_t mps = (size_t)vk_concretize(c.mps); size_t rl;
  switch (vk_choose(5)) { case 0: rl = 4; break; case 1: rl = 60; break; case 2: rl = mps - 7 - 1; break; case 3: rl = mps - 7; vk_reach("exactly-at-the-limit"); break; default: rl = mps - 7 + 1; break; }
  disconnect_props dp; dp[prop::reason_string] = std::string(rl, 'r');
  int op = w.disconnect(disconnect_rc_e::normal_disconnection, dp); vk::drain();
  auto* s = vk::pending_write(); vk_assert(s != nullptr, "DISCONNECT is written");
  ref::packet k; int rv = ref::decode((const uint8_t*)s->wdata.data(), s->wdata.size(), k); vk_assert(rv == ref::OK && k.type == ref::DISCONNECT && k.total == s->wdata.size(), "exactly one DISCONNECT on the wire");
  vk_assert(k.total <= c.mps, "DISCONNECT on the wire exceeds the broker's Maximum Packet Size");
  size_t full = 2 + 1 + 1 + 3 + rl;
  if (full <= c.mps) { vk_assert(k.props.n == 1, "DISCONNECT lost its properties although it fits"); const ref::prop_t* e = k.props.find(0x1F); vk_assert(e && e->a.n == rl, "DISCONNECT carries a different Reason String than given"); vk_reach("kept-properties"); }
  else { vk_assert(k.props.n == 0, "oversized DISCONNECT was not re-encoded without properties"); vk_reach("dropped-properties"); }
  (void)op;
}

// ---- C16 request level: values at and around their bounds
namespace u8ref {   // same recogniser as harness/k_utf8.cpp (RFC 3629 + MQTT 1.5.4), for two-byte inputs
static bool ok2(uint8_t a, uint8_t b) {
  auto cp_ok = [](uint32_t c) { return !(c <= 0x1F || (c >= 0x7F && c <= 0x9F)); };
  if (a <= 0x7F) return cp_ok(a) && b <= 0x7F && cp_ok(b);
  if (a >= 0xC2 && a <= 0xDF) return b >= 0x80 && b <= 0xBF && cp_ok(((a & 0x1Fu) << 6) | (b & 0x3Fu));
  return false;
}
}
extern "C" void h_req_validation(void) {
  W* wp = new W(); W& w = *wp;
  w.start(); w.connect_ok();
  int writes_before = vk::world().writes_started; int op = -1; bool expect_ok = true; int expect_ec = E_MALFORMED;
  switch (vk_choose(8)) {
    case 0: { // Subscription Identifier: 1 .. 268435455 (MQTT 3.8.2.1.2); 0 and larger values are refused
      uint32_t id = vk_sym_u32(); vk_assume(id <= 0x7FFFFFFFu); subscribe_props sp; sp[prop::subscription_identifier] = (int32_t)id;
      op = w.subscribe({{"a", subscribe_options{}}}, sp); expect_ok = id >= 1 && id <= 268435455u; vk_reach("subscription-identifier"); break; }
    case 1: { // payload declared as UTF-8 (Payload Format Indicator 1) must be well-formed
      uint8_t a = vk_sym_u8(), b = vk_sym_u8(); publish_props pp; pp[prop::payload_format_indicator] = uint8_t(1);
      std::string pl; pl.push_back((char)a); pl.push_back((char)b);
      op = w.publish<qos_e::at_most_once>("t", pl, retain_e::no, pp); expect_ok = u8ref::ok2(a, b); vk_reach("utf8-payload"); break; }
    case 2: { // user property key / value
      uint8_t a = vk_sym_u8(), b = vk_sym_u8(); publish_props pp; std::string k2; k2.push_back((char)a); k2.push_back((char)b);
      if (vk_choose(2)) pp[prop::user_property].push_back({k2, "v"}); else pp[prop::user_property].push_back({"k", k2});
      op = w.publish<qos_e::at_most_once>("t", "p", retain_e::no, pp); expect_ok = u8ref::ok2(a, b) && a != 0 ; vk_reach("user-property"); break; }
    case 3: { // response topic is a topic name: no wildcards, not empty
      uint8_t a = vk_sym_u8(); vk_assume(a >= 0x20 && a < 0x7F); publish_props pp; pp[prop::response_topic] = std::string(1, (char)a);
      op = w.publish<qos_e::at_most_once>("t", "p", retain_e::no, pp); expect_ok = a != '#' && a != '+'; vk_reach("response-topic"); break; }
    case 4: { // content type is a UTF-8 string
      uint8_t a = vk_sym_u8(), b = vk_sym_u8(); publish_props pp; std::string ct; ct.push_back((char)a); ct.push_back((char)b); pp[prop::content_type] = ct;
      op = w.publish<qos_e::at_most_once>("t", "p", retain_e::no, pp); expect_ok = u8ref::ok2(a, b); vk_reach("content-type"); break; }
    case 5: { // empty topic name is admissible only together with a Topic Alias (3.3.2.1); without a CONNACK Topic Alias Maximum every alias is refused
      publish_props pp; bool alias = vk_choose(2); if (alias) pp[prop::topic_alias] = uint16_t(1);
      op = w.publish<qos_e::at_most_once>("", "p", retain_e::no, pp); expect_ok = false; expect_ec = alias ? E_ALIAS : E_INVALID_TOPIC; vk_reach("empty-topic"); break; }
    case 6: { // DISCONNECT reason string
      uint8_t a = vk_sym_u8(), b = vk_sym_u8(); disconnect_props dp; std::string rs; rs.push_back((char)a); rs.push_back((char)b); dp[prop::reason_string] = rs;
      op = w.disconnect(disconnect_rc_e::normal_disconnection, dp); expect_ok = u8ref::ok2(a, b); vk_reach("reason-string"); break; }
    default: { // unsubscribe: topic filter rules apply
      uint8_t a = vk_sym_u8(); vk_assume(a >= 0x20 && a < 0x7F); std::string f = "x"; f.push_back((char)a);
      op = w.unsubscribe({f}); expect_ok = a != '#' && a != '+'; expect_ec = E_INVALID_TOPIC; vk_reach("unsubscribe-filter"); break; }
  }
  vk::drain();
  const op_rec& o = w.ops[op];
  if (expect_ok) {
    vk_assert(!o.done || o.ec == 0, "a well-formed request was rejected");
    vk_assert(vk::pending_write() != nullptr, "a well-formed request was not written");
    vk_reach("accepted");
  } else {
    vk_assert(o.done == 1 && o.ec == expect_ec, "an ill-formed request was not rejected with the documented error");
    vk_assert(vk::world().writes_started == writes_before, "an ill-formed request put something on the wire");
    vk_reach("rejected");
  }
}
