// C10 (and the handshake part of C19): every connection starts with exactly the configured CONNECT and is gated on CONNACK;
// failed handshakes are abandoned and the next endpoint / broker is tried in order with a pause only at wrap-around.
#include "w_client.hpp"
using namespace wc;
#ifndef VK_ATTEMPTS
#define VK_ATTEMPTS 3
#endif
#ifndef VK_BYTES
#define VK_BYTES 6
#endif
#ifndef VK_SYMCFG
#define VK_SYMCFG 1        // 1: symbolic configuration values (content job), 0: one concrete configuration (gating job)
#endif
#if VK_SYMCFG
#define CFG_U8(k) vk_sym_u8()
#define CFG_U16(k) vk_sym_u16()
#define CFG_U32(k) vk_sym_u32()
#define CFG_PROFILE() vk_choose(4)
#else
#define CFG_U8(k) ((uint8_t)(k))
#define CFG_U16(k) ((uint16_t)(k))
#define CFG_U32(k) ((uint32_t)(k))
#define CFG_PROFILE() 1
#endif

struct cfg_t { uint8_t id1; bool has_user, has_pass, has_will; uint8_t u1, p1, wt1, wp1, wqos; bool wretain; bool has_wdelay; uint32_t wdelay; uint16_t ka; bool has_sei; uint32_t sei; bool has_rm; uint16_t rm; };

struct X {
  W w; cfg_t c;
  int attempt = 0; int pauses = 0; int64_t pause_ms[4];
  int resolve_hosts[8]; int nres = 0;        // 0 = host "a", 1 = host "b"
  int connects[8]; int nconn = 0;            // endpoint index the client tried to connect to
  uint8_t first[96]; uint32_t first_len = 0; // the CONNECT of the first connection

  void configure() {
    // four profiles instead of 2^6 presence combinations: nothing optional / everything / user name + Session Expiry / password without user name
    int profile = CFG_PROFILE();
    c.id1 = CFG_U8('i'); c.has_user = profile == 1 || profile == 2; c.has_pass = profile == 1 || profile == 3; c.u1 = CFG_U8('u'); c.p1 = CFG_U8('p');
    c.has_will = profile == 1; c.wt1 = CFG_U8('x'); vk_assume(c.wt1 >= 'a' && c.wt1 <= 'z'); c.wp1 = CFG_U8('y'); c.wqos = CFG_U8(1); vk_assume(c.wqos <= 2); c.wretain = CFG_U8(1) & 1;
    c.has_wdelay = profile == 1; c.wdelay = CFG_U32(7);
    c.ka = CFG_U16(900); vk_assume(c.ka >= 600);      // keep-alive timers stay out of the way of the handshake timers here (keep-alive is C12)
    c.has_sei = profile == 1 || profile == 2; c.sei = CFG_U32(0x01020304); c.has_rm = profile == 1; c.rm = CFG_U16(0x0102);
    std::string id = "c"; id.push_back((char)c.id1);
    w.c.credentials(id, c.has_user ? std::string(1, (char)c.u1) : std::string(), c.has_pass ? std::string(1, (char)c.p1) : std::string());
    if (c.has_will) {
      will_props wp; if (c.has_wdelay) wp[prop::will_delay_interval] = c.wdelay;
      std::string wt = "w"; wt.push_back((char)c.wt1);
      w.c.will(will(wt, std::string(1, (char)c.wp1), qos_e(c.wqos), c.wretain ? retain_e::yes : retain_e::no, wp));
    }
    w.c.keep_alive(c.ka);
    if (c.has_sei) w.c.connect_property(prop::session_expiry_interval, c.sei);
    if (c.has_rm) w.c.connect_property(prop::receive_maximum, c.rm);
  }
  // the CONNECT the broker received equals the configuration
  void check_connect(const pkt_rec& r) {
    ref::packet k; bool ok = w.redecode(r, k); vk_assert(ok && k.type == ref::CONNECT, "first packet on the connection is not a CONNECT");
    vk_assert(!k.clean_start, "CONNECT has Clean Start 1");
    vk_assert(k.keep_alive == c.ka, "CONNECT carries a different keep-alive than configured");
    vk_assert(k.client_id.n == 2 && k.client_id.p[0] == 'c' && k.client_id.p[1] == c.id1, "CONNECT carries a different client identifier than configured");
    // an empty user name / password means "not configured" for credentials()
    vk_assert(k.has_user == c.has_user && (!c.has_user || (k.user.n == 1 && k.user.p[0] == c.u1)), "CONNECT carries a different user name than configured");
    vk_assert(k.has_pass == c.has_pass && (!c.has_pass || (k.pass.n == 1 && k.pass.p[0] == c.p1)), "CONNECT carries a different password than configured");
    vk_assert(k.has_will == c.has_will, "CONNECT Will flag differs from the configuration");
    if (c.has_will) {
      vk_assert(k.will_qos == c.wqos && k.will_retain == c.wretain, "CONNECT carries different Will QoS / RETAIN than configured");
      vk_assert(k.will_topic.n == 2 && k.will_topic.p[0] == 'w' && k.will_topic.p[1] == c.wt1 && k.will_payload.n == 1 && k.will_payload.p[0] == c.wp1, "CONNECT carries a different Will topic / payload than configured");
      const ref::prop_t* d = k.wprops.find(0x18);
      vk_assert((d != nullptr) == c.has_wdelay && (!d || d->num == c.wdelay) && k.wprops.n == (c.has_wdelay ? 1 : 0), "CONNECT carries different Will properties than configured");
    }
    const ref::prop_t* s = k.props.find(0x11); const ref::prop_t* m = k.props.find(0x21);
    vk_assert((s != nullptr) == c.has_sei && (!s || s->num == c.sei), "CONNECT carries a different Session Expiry Interval than configured");
    vk_assert((m != nullptr) == c.has_rm && (!m || m->num == c.rm), "CONNECT carries a different Receive Maximum than configured");
    vk_assert(k.props.n == (c.has_sei ? 1 : 0) + (c.has_rm ? 1 : 0), "CONNECT carries properties that were not configured");
    vk_reach("connect-checked");
  }
};

// one handshake attempt up to the point where the CONNECT has been received; returns false if the TCP connection was refused / resolve failed
static bool tcp_and_connect(X* x, int how) {
  W& w = x->w;
  // pause (backoff) before the attempt?
  vk::timer_rec* ct = vk::world().timers[1];
  if (!vk::pending_resolve() && !vk::pending_connect() && ct->armed) {
    vk_assert(x->pauses < 4, "harness"); x->pause_ms[x->pauses++] = ct->dur_ms;
    vk_assert(ct->dur_ms >= 500 && ct->dur_ms <= 16500, "pause between connection rounds outside 0.5 .. 16.5 s");
    bool f = w.fire_until(ct); vk_assert(f, "harness: backoff timer fires"); vk_reach("paused");
  }
  if (auto* r = vk::pending_resolve()) {
    x->resolve_hosts[x->nres++] = r->host == "a" ? 0 : r->host == "b" ? 1 : 9;
    vk_assert(ct->armed && ct->dur_ms == 5000, "name resolution is not raced against a 5 s timer");
    if (how == 1) { vk::complete_resolve(r, asio::error::host_not_found, 0); vk::drain(); vk_reach("resolve-failed"); return false; }
    if (how == 2) { bool f = w.fire_until(ct); vk_assert(f, "harness: resolve timer fires"); vk_reach("resolve-timeout"); return false; }
    vk::complete_resolve(r, {}, how == 3 ? 2 : 1); vk::drain();
  }
  vk::sock_rec* s = vk::pending_connect(); vk_assert(s != nullptr, "no TCP connect after a successful resolve");
  vk_assert(vk::count_pending_connects() == 1, "more than one connection attempt in progress");
  vk_assert(ct->armed && ct->dur_ms == 5000, "the handshake is not raced against a 5 s timer");
  return true;
}

extern "C" void h_connect(void) {
  X* x = new X(); W& w = x->w;
  x->configure();
  int nhosts = 1 + vk_choose(2);
  w.c.brokers(nhosts == 2 ? "a,b" : "a", 1883);
  w.in_api = true; w.c.async_run([&w](error_code ec) { w.run_done++; w.run_ec = ec.value(); }); w.in_api = false; vk::drain();
  int q = w.publish<qos_e::at_most_once>("t", "Q"); vk::drain();          // traffic queued before any connection exists
  bool up = false;
  for (int a = 0; a < VK_ATTEMPTS && !up; a++) {
    int how = vk_choose(4);                  // 0: resolves to one endpoint, 1: resolve fails, 2: resolve times out, 3: resolves to two endpoints
    if (!tcp_and_connect(x, how)) continue;
    int endpoints = how == 3 ? 2 : 1;
    for (int e = 0; e < endpoints && !up; e++) {
      vk::sock_rec* s = vk::pending_connect(); vk_assert(s != nullptr, "next endpoint of the same host is not tried");
      int outcome = vk_choose(5);            // 0: success, 1: TCP refused, 2: CONNACK with failure code, 3: malformed reply, 4: silence (timer)
      if (outcome == 1) { vk::complete_connect(s, asio::error::connection_refused); vk::drain(); vk_reach("refused"); continue; }
      vk::complete_connect(s, {}); w.new_connection(); vk::drain();
      vk::sock_rec* wr = vk::pending_write(); vk_assert(wr != nullptr, "no CONNECT written on a new connection");
      int b = w.npk; w.finish_write(wr, wr->wdata.size(), {}); vk::drain();
      vk_assert(w.npk == b + 1 && w.pk[b].type == ref::CONNECT, "the first write of a connection is not exactly one CONNECT");
      if (x->first_len == 0) { x->check_connect(w.pk[b]); x->first_len = w.pk[b].len; vk_assert(x->first_len <= sizeof x->first, "harness: CONNECT size"); for (uint32_t i = 0; i < x->first_len; i++) x->first[i] = w.rx[w.pk[b].off + i]; }
      else { vk_assert(w.pk[b].len == x->first_len, "CONNECT of a later attempt differs from the first one"); for (uint32_t i = 0; i < x->first_len; i++) vk_assert(w.rx[w.pk[b].off + i] == x->first[i], "CONNECT of a later attempt differs from the first one"); vk_reach("connect-repeated"); }
      vk_assert(!vk::pending_write(), "something was written before CONNACK");
      vk::timer_rec* ct = vk::world().timers[1];
      if (outcome == 0) {
        // a successful CONNACK may carry values that override the client's for THIS connection (Server Keep Alive, Assigned Client
        // Identifier, Session Expiry): the configuration used for the next CONNECT must not change
        static const uint8_t overrides[] = {0x13, 0x00, 0x1E, 0x12, 0x00, 0x02, 'z', 'z', 0x11, 0x00, 0x00, 0x00, 0x05};
        bool ov = vk_choose(2); w.send_connack(vk_choose(2), 0, ov ? overrides : nullptr, ov ? sizeof overrides : 0); w.feed_all(); vk::drain(); up = true;
        if (ov) vk_reach("connack-with-overrides");
        break;
      }
      if (outcome == 2) { uint8_t rc = vk_choose(2) ? 0x87 : 0x9F; w.send_connack(false, rc, nullptr, 0); w.feed_all(); vk::drain(); vk_reach("connack-refused"); }
      else if (outcome == 3) {
        // a reply that is not a well-formed successful CONNACK (arbitrary reply bytes are explored by h_hostile_handshake)
        ref::wr o = w.outw();
        switch (vk_choose(3)) {
          case 0: { uint8_t b[5] = {0x90, 0x03, 0x00, 0x01, 0x00}; o.bytes(b, 5); break; }            // a SUBACK instead of CONNACK
          case 1: { uint8_t b[3] = {0x20, 0x03, 0x00}; o.bytes(b, 3); break; }                          // truncated CONNACK: the client keeps waiting
          default: { uint8_t b[6] = {0x20, 0x04, 0x00, 0x00, 0x7F, 0x00}; o.bytes(b, 6); break; }       // property length beyond the packet
        }
        w.commit(o); w.connack_sent = true; w.feed_all(); vk::drain();
        if (vk::pending_read() && vk::pending_read()->connected && ct->armed) w.fire_until(ct);
        vk_reach("malformed-reply");
      }
      else { bool f = w.fire_until(ct); vk_assert(f, "harness: handshake timer fires"); vk_reach("silent-broker"); }
      // the failed handshake is abandoned: nothing but the CONNECT was written on that connection and the queued PUBLISH is still queued
      for (int i = b + 1; i < w.npk; i++) vk_assert(w.pk[i].epoch != w.epoch, "a packet other than CONNECT was written on a connection whose handshake failed");
      vk_assert(!w.ops[q].done, "a queued request completed although no handshake has succeeded");
      w.out_n = w.out_pos = 0;
    }
  }
  // hosts are tried in list order, wrapping around; a pause happens only at wrap-around
  for (int i = 0; i < x->nres; i++) vk_assert(x->resolve_hosts[i] == (i % nhosts), "brokers are not tried in list order");
  vk_assert(x->pauses <= x->nres / nhosts, "a pause was taken although the broker list had not wrapped around");
  if (x->nres > nhosts) vk_assert(x->pauses >= 1, "the broker list wrapped around without a pause");
  if (up) {
    // only now the queued traffic goes out
    vk::sock_rec* wr = vk::pending_write(); vk_assert(wr != nullptr, "queued PUBLISH is not written after a successful CONNACK");
    int b = w.npk; w.finish_write(wr, wr->wdata.size(), {}); vk::drain();
    vk_assert(w.npk == b + 1 && w.pk[b].type == ref::PUBLISH, "unexpected packet after CONNACK");
    vk_assert(w.ops[q].done == 1 && w.ops[q].ec == 0, "queued PUBLISH did not complete after the connection came up");
    vk_reach("connected");
    // the connection is lost later: the next attempt continues with the next broker of the list (pause only at wrap-around)
    // and starts with the same CONNECT again
    if (x->nres >= 1 && vk_choose(2)) {
      int last_host = x->resolve_hosts[x->nres - 1]; int before_res = x->nres; int pauses_before = x->pauses;
      w.drop_connection(); vk::drain();
      bool again = tcp_and_connect(x, 0); vk_assert(again, "no new attempt after the connection was lost");
      vk_assert(x->nres == before_res + 1 && x->resolve_hosts[x->nres - 1] == (last_host + 1) % nhosts, "after a lost connection the next broker of the list is not the one tried");
      vk_assert((x->pauses > pauses_before) == (last_host + 1 >= nhosts), "pause after a lost connection is not tied to the wrap-around of the broker list");
      vk::sock_rec* s2 = vk::pending_connect(); vk::complete_connect(s2, {}); w.new_connection(); vk::drain();
      vk::sock_rec* wr2 = vk::pending_write(); vk_assert(wr2 != nullptr, "no CONNECT on the connection after a loss");
      int b2 = w.npk; w.finish_write(wr2, wr2->wdata.size(), {}); vk::drain();
      vk_assert(w.npk == b2 + 1 && w.pk[b2].type == ref::CONNECT && w.pk[b2].len == x->first_len, "the connection after a loss does not start with the same CONNECT");
      for (uint32_t i = 0; i < x->first_len; i++) vk_assert(w.rx[w.pk[b2].off + i] == x->first[i], "the connection after a loss does not start with the same CONNECT");
      vk_reach("reconnect-after-success");
    }
  }
}

// ---- C19 (iii): arbitrary reply bytes during the handshake, in one read or split
extern "C" void h_hostile_handshake(void) {
  X* x = new X(); W& w = x->w;
  w.c.brokers("a", 1883);
  w.in_api = true; w.c.async_run([&w](error_code ec) { w.run_done++; }); w.in_api = false; vk::drain();
  int q = w.publish<qos_e::at_least_once>("t", "Q"); vk::drain();
  bool ok = w.establish(); vk_assert(ok, "first connection");
  size_t n = 1 + vk_choose(VK_BYTES); ref::wr o = w.outw(); for (size_t i = 0; i < n; i++) o.u8(vk_sym_u8());
  // the announced Remaining Length is kept small: the client allocates what the broker announces (up to 256 MB), which is not the subject here
  if (n >= 2) { ref::rd q = {w.out, n, 1, false}; uint32_t v = q.varint(); vk_assume(q.bad || v <= 24); }
  // optionally more bytes follow the symbolic ones (a broker may send any amount): enough to leave a small-string buffer
  if (n >= 5 && vk_choose(2)) { for (int i = 0; i < 16; i++) o.u8(0x00); vk_reach("long-reply"); }
  w.commit(o);
  ref::packet k; int rv = ref::decode(w.out, w.out_n, k, ref::L_OMIT_PROPS | ref::L_TRAILING | ref::L_DUP_PROPS | ref::L_RESERVED);
  bool good = rv == ref::OK && k.type == ref::CONNACK && k.rc == 0;      // the reply starts with a successful CONNACK (whatever follows is ordinary inbound traffic)
  w.connack_sent = true;
  if (vk_choose(2) && w.out_avail() > 1) { w.feed(1 + vk_choose(2)); vk::drain(); vk_reach("split"); }
  w.feed_all(); vk::drain();
  vk::timer_rec* ct = vk::world().timers[1];
  if (!good) {
    // nothing may be written on this connection besides the CONNECT, and the queued request must not complete
    if (auto* s = vk::pending_write()) { ref::packet p2; int r2 = ref::decode((const uint8_t*)s->wdata.data(), s->wdata.size(), p2); vk_assert(r2 == ref::OK && p2.type != ref::PUBLISH, "queued PUBLISH written although the handshake reply was not a successful CONNACK"); }
    vk_assert(!w.ops[q].done, "a request completed although the handshake reply was not a successful CONNACK");
    vk_reach("rejected");
  } else vk_reach("accepted");
  (void)ct;
}

// ---- C19 (iii-b): the same after an AUTH round of a configured authenticator: the broker's (well-formed, long) AUTH challenge
// is followed by arbitrary reply bytes - shorter than the challenge, so that anything read past the reply hits what the
// challenge left in the handshake buffer
extern "C" void h_hostile_auth_handshake(void) {
  X* x = new X(); W& w = x->w;
  w.c.authenticator(vk_authenticator{1, 2, false});
  w.c.brokers("a", 1883);
  w.in_api = true; w.c.async_run([&w](error_code ec) { w.run_done++; }); w.in_api = false; vk::drain();
  int q = w.publish<qos_e::at_least_once>("t", "Q"); vk::drain();
  bool ok = w.establish(); vk_assert(ok, "first connection");
  { // AUTH 0x18 (continue authentication), method "m", 12 bytes of Authentication Data
    uint8_t b[32]; ref::wr bw = {b, sizeof b, 0, false}; bw.u8(0x18); uint8_t pr[24]; ref::wr pw = {pr, sizeof pr, 0, false};
    uint8_t meth = 'm'; static const uint8_t data[12] = {0, 9, 0, 9, 0, 9, 0, 9, 0, 9, 0, 9}; ref::p_str(pw, 0x15, &meth, 1); ref::p_str(pw, 0x16, data, 12); bw.varint((uint32_t)pw.n); bw.bytes(pr, pw.n);
    ref::wr o = w.outw(); ref::frame(o, ref::AUTH, 0, b, bw.n); w.commit(o); w.connack_sent = true; w.feed_all(); vk::drain(); w.connack_sent = false; }
  vk::sock_rec* s = vk::pending_write(); vk_assert(s != nullptr, "the client answers the challenge with an AUTH packet");
  w.finish_write(s, s->wdata.size(), {}); vk::drain(); vk_reach("auth-round");
  vk_assert(!w.ops[q].done, "a request completed during the AUTH exchange");
  w.out_n = w.out_pos = 0;
  size_t n = 1 + vk_choose(VK_BYTES); ref::wr o = w.outw(); for (size_t i = 0; i < n; i++) o.u8(vk_sym_u8());
  if (n >= 2) { ref::rd rq = {w.out, n, 1, false}; uint32_t v = rq.varint(); vk_assume(rq.bad || v <= 24); }
  w.commit(o);
  ref::packet k; int rv = ref::decode(w.out, w.out_n, k, ref::L_OMIT_PROPS | ref::L_TRAILING | ref::L_DUP_PROPS | ref::L_RESERVED);
  bool good = rv == ref::OK && k.type == ref::CONNACK && k.rc == 0;
  w.connack_sent = true;
  if (vk_choose(2) && w.out_avail() > 1) { w.feed(1 + vk_choose(2)); vk::drain(); vk_reach("split"); }
  w.feed_all(); vk::drain();
  if (!good) {
    if (auto* s2 = vk::pending_write()) { ref::packet p2; int r2 = ref::decode((const uint8_t*)s2->wdata.data(), s2->wdata.size(), p2); vk_assert(r2 == ref::OK && p2.type != ref::PUBLISH, "queued PUBLISH written although the reply after the AUTH round was not a successful CONNACK"); }
    vk_assert(!w.ops[q].done, "a request completed although the reply after the AUTH round was not a successful CONNACK");
    vk_reach("rejected");
  } else vk_reach("accepted");
}

// ---- kernel: exponential backoff for every generator state
#include <boost/mqtt5/impl/reconnect_op.hpp>
extern "C" void h_backoff(void) {
  boost::mqtt5::detail::exponential_backoff b;
  uint32_t calls = vk_choose(7);
  for (uint32_t i = 0; i < calls; i++) (void)b.generate();
  vk_make_symbolic(reinterpret_cast<char*>(&b) + 8, 8);        // the rand48 state (sizeof == 8, after the exponent and padding)
  long ms = std::chrono::duration_cast<std::chrono::milliseconds>(b.generate()).count();
  long base = 1000L << (calls < 4 ? calls : 4);
  vk_assert(ms >= base - 500 && ms <= base + 500, "backoff is not 2^min(k,4) s +- 500 ms");
  vk_assert(ms >= 500 && ms <= 16500, "backoff outside 0.5 .. 16.5 s");
  if (calls >= 4) vk_reach("saturated");
}

// ---- broker list parsing: a generated well-formed list is tried host by host with exactly its hosts and ports
extern "C" void h_brokers(void) {
  X* x = new X(); W& w = x->w;
  int n = 1 + vk_choose(2); std::string hosts; uint8_t h1[2]; bool has_port[2]; uint8_t d1[2];
  static const char host_chars[] = {'a', 'Z', '7', '-', '.', '_', '~'};
  for (int i = 0; i < n; i++) {
    if (i) { int sp = vk_choose(3); if (sp == 1) hosts += " "; hosts += ","; if (sp == 2) hosts += " "; }
    h1[i] = (uint8_t)host_chars[i == 0 ? vk_choose(7) : 3];
    hosts += "h"; hosts.push_back((char)h1[i]);
    has_port[i] = vk_choose(2); d1[i] = has_port[i] && vk_choose(2) ? '0' : '9';
    if (has_port[i]) { hosts += ":8"; hosts.push_back((char)d1[i]); }
  }
  w.c.brokers(hosts, 1883);
  w.in_api = true; w.c.async_run([&w](error_code ec) { w.run_done++; }); w.in_api = false; vk::drain();
  for (int i = 0; i < n; i++) {
    auto* r = vk::pending_resolve(); vk_assert(r != nullptr, "a broker of the list was not tried");
    vk_assert(r->host.size() == 2 && r->host[0] == 'h' && (uint8_t)r->host[1] == h1[i], "resolver asked for a different host than listed");
    if (has_port[i]) vk_assert(r->port.size() == 2 && r->port[0] == '8' && (uint8_t)r->port[1] == d1[i], "resolver asked for a different port than listed");
    else vk_assert(r->port == "1883", "default port not applied");
    vk::complete_resolve(r, asio::error::host_not_found, 0); vk::drain();
  }
  vk_assert(!vk::pending_resolve(), "more brokers tried than listed before the pause");
  vk_reach(n == 2 ? "two-hosts" : "one-host");
}

// ---- C10: the AUTH exchange of a configured authenticator is the only traffic allowed before CONNACK
extern "C" void h_auth_handshake(void) {
  X* x = new X(); W& w = x->w;
  uint8_t d_init = vk_sym_u8(), d_reply = vk_sym_u8(), d_chal = vk_sym_u8(); bool fail = vk_choose(2);
  w.c.authenticator(vk_authenticator{d_init, d_reply, fail});
  w.c.brokers("a", 1883);
  w.in_api = true; w.c.async_run([&w](error_code ec) { w.run_done++; }); w.in_api = false; vk::drain();
  int q = w.publish<qos_e::at_most_once>("t", "Q"); vk::drain();
  bool ok = w.establish(); vk_assert(ok, "first connection");
  // CONNECT carries Authentication Method "m" and the authenticator's initial data
  { ref::packet k; bool r = w.redecode(w.pk[w.npk - 1], k); vk_assert(r && k.type == ref::CONNECT, "CONNECT first");
    const ref::prop_t* m = k.props.find(0x15); const ref::prop_t* d = k.props.find(0x16);
    vk_assert(m && m->a.n == 1 && m->a.p[0] == 'm' && d && d->a.n == 1 && d->a.p[0] == d_init, "CONNECT does not carry the authenticator's method and initial data"); }
  int scenario = (int)vk_choose(3);
  if (scenario <= 1) {
    // broker continues the authentication: AUTH 0x18 with the method (scenario 1: a different method -> malformed)
    uint8_t b[12]; ref::wr bw = {b, sizeof b, 0, false}; bw.u8(0x18); uint8_t pr[8]; ref::wr pw = {pr, sizeof pr, 0, false};
    uint8_t meth = scenario == 0 ? 'm' : 'x'; ref::p_str(pw, 0x15, &meth, 1); ref::p_str(pw, 0x16, &d_chal, 1); bw.varint((uint32_t)pw.n); bw.bytes(pr, pw.n);
    ref::wr o = w.outw(); ref::frame(o, ref::AUTH, 0, b, bw.n); w.commit(o); w.connack_sent = true; w.feed_all(); vk::drain(); w.connack_sent = false;
    if (scenario == 0 && !fail) {
      vk::sock_rec* s = vk::pending_write(); vk_assert(s != nullptr, "no AUTH reply to the broker's challenge");
      int b0 = w.npk; w.finish_write(s, s->wdata.size(), {}); vk::drain();
      ref::packet k; bool r = w.redecode(w.pk[b0], k); vk_assert(w.npk == b0 + 1 && r && k.type == ref::AUTH && k.rc == 0x18, "the reply to the challenge is not exactly one AUTH (continue authentication)");
      const ref::prop_t* d = k.props.find(0x16); vk_assert(d && d->a.n == 1 && d->a.p[0] == d_reply, "AUTH does not carry the authenticator's answer");
      vk_assert(!w.ops[q].done, "a queued request completed during the AUTH exchange");
      w.send_connack(false, 0, nullptr, 0); w.feed_all(); vk::drain();
      vk::sock_rec* s2 = vk::pending_write(); vk_assert(s2 != nullptr, "queued PUBLISH not written after the authenticated CONNACK");
      int b1 = w.npk; w.finish_write(s2, s2->wdata.size(), {}); vk::drain(); vk_assert(w.pk[b1].type == ref::PUBLISH && w.ops[q].done == 1, "queued PUBLISH completes after the authenticated CONNACK");
      vk_reach("authenticated");
    } else {
      // mismatching method or failing authenticator: the attempt is abandoned, nothing else written, the request stays queued
      if (auto* s = vk::pending_write()) { ref::packet k; int rv = ref::decode((const uint8_t*)s->wdata.data(), s->wdata.size(), k); vk_assert(rv == ref::OK && k.type != ref::PUBLISH && k.type != ref::AUTH, "traffic written although the AUTH exchange failed"); }
      vk_assert(!w.ops[q].done, "a queued request completed although the AUTH exchange failed"); vk_reach("auth-abandoned");
    }
  } else {
    w.send_connack(false, 0, nullptr, 0); w.feed_all(); vk::drain();
    vk::sock_rec* s2 = vk::pending_write(); vk_assert(s2 != nullptr, "queued PUBLISH not written after CONNACK");
    vk_reach("connack-without-challenge");
  }
}
