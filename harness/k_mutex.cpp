// C11 (kernel): the real async_mutex against a reference model under every sequence of lock / unlock / per-waiter cancellation /
// cancel-all / handler execution.
#include "vk_api.h"
#include "vk_world.hpp"
#include <boost/mqtt5/detail/async_mutex.hpp>
#include <boost/asio/bind_cancellation_slot.hpp>
#include <boost/asio/cancellation_signal.hpp>
template class std::basic_string<char>;
namespace asio = boost::asio; using boost::mqtt5::detail::async_mutex; using vk::error_code;
#ifndef VK_STEPS
#define VK_STEPS 7
#endif
#ifndef VK_WAITERS
#define VK_WAITERS 3
#endif

struct M {
  async_mutex mtx { vk::executor{} };
  asio::cancellation_signal sig[VK_WAITERS];
  int requested[VK_WAITERS], done[VK_WAITERS], ec[VK_WAITERS], order[VK_WAITERS]; int nreq = 0, ndone = 0;
  bool in_call = false; int holders = 0; int holder = -1;
  // reference model
  bool m_locked = false; int m_queue[VK_WAITERS]; int m_qn = 0; bool m_cancelled[VK_WAITERS]; int m_grant_seq[VK_WAITERS]; int m_grants = 0;
  void m_remove(int i) { int k = 0; for (int j = 0; j < m_qn; j++) if (m_queue[j] != i) m_queue[k++] = m_queue[j]; m_qn = k; }
  bool m_queued(int i) const { for (int j = 0; j < m_qn; j++) if (m_queue[j] == i) return true; return false; }
};

extern "C" void h_mutex(void) {
  M* m = new M();
  for (int i = 0; i < VK_WAITERS; i++) { m->requested[i] = 0; m->done[i] = 0; m->ec[i] = -1; m->order[i] = -1; m->m_cancelled[i] = false; m->m_grant_seq[i] = -1; }
  for (int step = 0; step < VK_STEPS; step++) {
    uint32_t ev = vk_choose(5);
    switch (ev) {
      case 0: { // the next waiter asks for the lock
        if (m->nreq >= VK_WAITERS) vk_assume(0); int i = m->nreq++; m->requested[i] = 1;
        m->in_call = true;
        m->mtx.lock(asio::bind_cancellation_slot(m->sig[i].slot(), [m, i](error_code e) {
          vk_assert(!m->in_call, "a lock handler ran inside lock() / unlock() / cancel() / signal emission");
          m->done[i]++; m->ec[i] = e.value(); m->order[i] = m->ndone++;
          if (!e) { m->holders++; m->holder = i; vk_assert(m->holders == 1, "two holders of the connection lock at the same time"); }
        }));
        m->in_call = false;
        if (m->m_locked) m->m_queue[m->m_qn++] = i; else { m->m_locked = true; m->m_grant_seq[i] = m->m_grants++; }
        break; }
      case 1: { // the holder releases the lock
        if (m->holder < 0) vk_assume(0);
        m->holders--; m->holder = -1; m->in_call = true; m->mtx.unlock(); m->in_call = false;
        if (m->m_qn) { int nx = m->m_queue[0]; m->m_remove(nx); m->m_grant_seq[nx] = m->m_grants++; } else m->m_locked = false;
        vk_reach("unlock"); break; }
      case 2: { // cancellation signal of one waiter
        int i = (int)vk_choose(VK_WAITERS); if (!m->requested[i]) vk_assume(0);
        m->in_call = true; m->sig[i].emit(asio::cancellation_type::total); m->in_call = false;
        if (m->m_queued(i)) { m->m_cancelled[i] = true; m->m_remove(i); vk_reach("waiter-cancelled"); }
        break; }
      case 3: { // cancel-all
        m->in_call = true; m->mtx.cancel(); m->in_call = false;
        for (int j = 0; j < m->m_qn; j++) m->m_cancelled[m->m_queue[j]] = true; m->m_qn = 0; vk_reach("cancel-all"); break; }
      default: { if (!vk::run_one()) vk_assume(0); break; }
    }
    for (int i = 0; i < VK_WAITERS; i++) vk_assert(m->done[i] <= 1, "a waiter's handler ran twice");
    vk_assert(m->mtx.is_locked() == m->m_locked, "is_locked() differs from the reference model");
  }
  // quiescence: run everything that is queued; every request has been answered once, exactly as the reference model says
  vk::drain();
  int last = -1;
  for (int k = 0; k < m->m_grants; k++) for (int i = 0; i < VK_WAITERS; i++) if (m->m_grant_seq[i] == k) { vk_assert(i > last, "reference model: grants in arrival order"); last = i; }
  for (int i = 0; i < m->nreq; i++) {
    if (m->m_grant_seq[i] >= 0) { vk_assert(m->done[i] == 1 && m->ec[i] == 0, "a waiter that was due the lock did not get it (or was told it was cancelled)"); vk_reach("granted"); }
    else if (m->m_cancelled[i]) { vk_assert(m->done[i] == 1 && m->ec[i] == asio::error::operation_aborted, "a cancelled waiter was not told so exactly once (or was granted the lock)"); }
    else vk_assert(m->done[i] == 0, "a waiter still queued behind the holder was completed");
  }
  // grants happen in arrival order
  int prev_order = -1;
  for (int i = 0; i < m->nreq; i++) if (m->done[i] && m->ec[i] == 0) { vk_assert(m->order[i] > prev_order, "lock granted out of arrival order"); prev_order = m->order[i]; }
}
