// Native implementation of the harness API: inputs are replayed from the file named by $VK_INPUTS
// (one per line: "s <width> <value>" or "c <value>"), the monitor log goes to stdout.
#include "vk_api.h"
#include <cstdio>
#include <cstdlib>
#include <cstring>
#include <vector>
#include <chrono>
namespace {
struct input { char kind; unsigned long long v; };
std::vector<input> g_in; size_t g_pos = 0; bool g_loaded = false;
void load() {
  if (g_loaded) return; g_loaded = true;
  const char* f = getenv("VK_INPUTS"); if (!f) return;
  FILE* fp = fopen(f, "r"); if (!fp) return;
  char k; unsigned w; unsigned long long v; char line[128];
  while (fgets(line, sizeof line, fp)) {
    if (sscanf(line, "s %u %llu", &w, &v) == 2) g_in.push_back({'s', v});
    else if (sscanf(line, "c %llu", &v) == 1) g_in.push_back({'c', v});
  }
  fclose(fp);
}
unsigned long long vk_next_input(char kind) {
  load();
  if (g_pos < g_in.size()) {
    if (g_in[g_pos].kind != kind) { printf("X input kind mismatch at %zu\n", g_pos); fflush(stdout); _Exit(4); }
    return g_in[g_pos++].v;
  }
  g_pos++; return 0;
}
}
extern "C" {
uint8_t vk_sym_u8(void) { return (uint8_t)vk_next_input('s'); }
uint16_t vk_sym_u16(void) { return (uint16_t)vk_next_input('s'); }
uint32_t vk_sym_u32(void) { return (uint32_t)vk_next_input('s'); }
uint64_t vk_sym_u64(void) { return (uint64_t)vk_next_input('s'); }
void vk_make_symbolic(void* p, size_t n) { for (size_t i = 0; i < n; i++) ((uint8_t*)p)[i] = (uint8_t)vk_next_input('s'); }
uint32_t vk_choose(uint32_t n) { return (uint32_t)(vk_next_input('c') % n); }
void vk_assume(int c) { if (!c) { printf("U\n"); fflush(stdout); _Exit(0); } }
void vk_assert(int c, const char* msg) { if (!c) { printf("A %s\n", msg); fflush(stdout); _Exit(3); } }
void vk_event(uint32_t tag, uint64_t value) { printf("E %u %llu\n", tag, (unsigned long long)value); }
void vk_reach(const char* label) { printf("R %s\n", label); }
void vk_note(const char* text) { printf("N %s\n", text); }
uint64_t vk_concretize(uint64_t v) { return v; }
void vk_check_range(const void* p, size_t n) { volatile unsigned char s = 0; for (size_t i = 0; i < n; i++) s += ((const volatile unsigned char*)p)[i]; }
}
#ifdef VK_STUB_CLOCK
// interpose the libstdc++ clocks: arbitrary non-decreasing instants taken from the recorded inputs
namespace std { namespace chrono { inline namespace _V2 {
static long long vk_last_clock = 0;
extern "C" long long vk_now_ms __attribute__((weak));
static long long vk_clock() {
  if (&vk_now_ms) return vk_now_ms * 1000000LL; long long v = (long long)(vk_next_input('s') & ((1ull << 62) - 1)); if (v < vk_last_clock) v = vk_last_clock; vk_last_clock = v; return v; }
system_clock::time_point system_clock::now() noexcept { return time_point(duration(vk_clock())); }
steady_clock::time_point steady_clock::now() noexcept { return time_point(duration(vk_clock())); }
}}}
#endif
#include <ctime>
// the seed of exponential_backoff's generator (std::time(0)) is an input like any other
extern "C" long long vk_time_fixed __attribute__((weak));
extern "C" time_t time(time_t* t) noexcept { time_t v = &vk_time_fixed ? (time_t)vk_time_fixed : (time_t)vk_next_input('s'); if (t) *t = v; return v; }
#include <exception>
#include <boost/assert/source_location.hpp>
// -fno-exceptions build: Boost calls these instead of throwing; reaching one is reported like an abort
namespace boost {
void throw_exception(std::exception const& e) { fprintf(stderr, "boost::throw_exception: %s\n", e.what()); fflush(stdout); abort(); }
void throw_exception(std::exception const& e, boost::source_location const&) { fprintf(stderr, "boost::throw_exception: %s\n", e.what()); fflush(stdout); abort(); }
}
#include <dlfcn.h>
int main(int argc, char** argv) {
  setvbuf(stdout, nullptr, _IOFBF, 1 << 16);
  if (argc < 2) { fprintf(stderr, "usage: %s <entry>\n", argv[0]); return 2; }
  void (*fn)(void) = (void (*)(void))dlsym(RTLD_DEFAULT, argv[1]);
  if (!fn) { fprintf(stderr, "no entry %s\n", argv[1]); return 2; }
  fn(); printf("D\n"); fflush(stdout); return 0;
}
