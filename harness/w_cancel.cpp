// C05: every operation completes exactly once, never inside its initiating call; cancel() / a finished async_disconnect /
// destruction complete everything with operation_aborted and leave no work behind; the client can be run again.
#include "w_client.hpp"
using namespace wc;
#ifndef VK_STEPS
#define VK_STEPS 5
#endif
#ifndef VK_OPS
#define VK_OPS 3
#endif
#ifndef VK_MALFORMED
#define VK_MALFORMED 0      // 1: the broker may send a malformed packet; the client's own DISCONNECT write may then fail unrecoverably (internal cancel)
#endif

// packet identifiers in use = 65535 - free ones, read through the private-member access idiom (C08 release discipline)
using svc_t = boost::mqtt5::detail::client_service<stream_t, std::monostate, boost::mqtt5::noop_logger>;
template <typename Tag, typename Tag::type M> struct rob { friend typename Tag::type stolen(Tag) { return M; } };
struct t_impl { typedef std::shared_ptr<svc_t> client_t::*type; friend type stolen(t_impl); };
template struct rob<t_impl, &client_t::_impl>;
struct t_alloc { typedef boost::mqtt5::detail::packet_id_allocator svc_t::*type; friend type stolen(t_alloc); };
template struct rob<t_alloc, &svc_t::_pid_allocator>;
template <auto M> struct rob2 { friend auto& free_ids(boost::mqtt5::detail::packet_id_allocator& a) { return a.*M; } };
auto& free_ids(boost::mqtt5::detail::packet_id_allocator& a);
template struct rob2<&boost::mqtt5::detail::packet_id_allocator::_free_ids>;
static int ids_in_use(client_t& c) {
  auto& v = free_ids((*(c.*stolen(t_impl{}))).*stolen(t_alloc{})); long free_n = 0;
  for (size_t i = 0; i < v.size(); i++) free_n += (long)v[i].start - (long)v[i].end;
  return (int)(65535 - free_n);
}

struct X {
  W* w = new W();
  bool armed = false; int nops_started = 0; bool stopped = false; int stop_kind = -1; int disc_op = -1; int nreconn = 0; int restarted = 0; bool destroyed = false;

  void ev_start_op() {
    if (nops_started >= VK_OPS || stopped) vk_assume(0);
    nops_started++;
#ifdef VK_CANCEL_IN_HANDLER
    // the application calls cancel() from inside the completion handler of this operation (whenever it completes)
    if (!armed && vk_choose(2)) { armed = true; w->act[w->nops] = 1; vk_reach("cancel-in-handler-armed"); }
#endif
    switch (vk_choose(6)) {
      case 0: w->publish<qos_e::at_most_once>("t", "p"); break;
      case 1: w->publish<qos_e::at_least_once>("t", "p"); break;
      case 2: w->publish<qos_e::exactly_once>("t", "p"); break;
      case 3: w->subscribe({{"f", subscribe_options{}}}); break;
      case 4: w->unsubscribe({"f"}); break;
      default: w->publish<qos_e::at_least_once>("", "p"); vk_reach("invalid-request"); break;     // rejected by validation: immediate completion path
    }
    vk::drain();
  }
  // the transport write completes; its completion handler runs at once, or stays queued while the next event happens
  // (e.g. cancel() called between the completion of the write and the execution of its handler)
  void ev_write_done() {
    auto* s = vk::pending_write(); if (!s || stopped) vk_assume(0);
    w->finish_write(s, s->wdata.size(), {});
    if (vk_choose(2)) vk::drain(); else vk_reach("completion-left-queued");
  }
  // the broker answers the oldest request it has received and not answered yet
  void ev_answer() {
    if (stopped || !w->connected()) vk_assume(0);
    for (int i = 0; i < w->npk; i++) {
      pkt_rec& r = w->pk[i]; if (r.epoch != w->epoch || r.aux == 1) continue;
      uint8_t code = 0;
      if (r.type == ref::PUBLISH && r.qos == 1) { r.aux = 1; w->ack(ref::PUBACK, r.pid, 0, 1); }
      else if (r.type == ref::PUBLISH && r.qos == 2) { r.aux = 1; w->ack(ref::PUBREC, r.pid, 0, 1); }
      else if (r.type == ref::PUBREL) { r.aux = 1; w->ack(ref::PUBCOMP, r.pid, 0, 1); }
      else if (r.type == ref::SUBSCRIBE) { r.aux = 1; w->suback(ref::SUBACK, r.pid, &code, 1); }
      else if (r.type == ref::UNSUBSCRIBE) { r.aux = 1; w->suback(ref::UNSUBACK, r.pid, &code, 1); }
      else continue;
      w->feed_all(); vk::drain(); vk_reach("answered"); return;
    }
    vk_assume(0);
  }
  void ev_cancel_one() {
    if (stopped) vk_assume(0);
    int j = -1; for (int i = 0; i < w->nops; i++) if (!w->ops[i].done) { j = i; break; }
    if (j < 0) vk_assume(0);
    bool terminal = vk_choose(2);
    w->in_api = true; w->sig[j].emit(terminal ? asio::cancellation_type::terminal : asio::cancellation_type::total); w->in_api = false;
    if (terminal) { stopped = true; stop_kind = 2; vk_reach("terminal-signal"); }
    vk::drain();
  }
  void ev_stop() {
    if (stopped) vk_assume(0);
    stopped = true; stop_kind = vk_choose(3);
    if (stop_kind == 0) { w->in_api = true; w->c.cancel(); w->in_api = false; vk::drain(); vk_reach("cancel"); }
    else if (stop_kind == 1) {
      disc_op = w->disconnect(); vk::drain();
      // the DISCONNECT write completes, fails with a recoverable or a non-recoverable error, or stays in flight (then the 5 s timer ends the wait)
      if (auto* s = vk::pending_write()) {
        switch (vk_choose(4)) {
          case 0: break;
          case 1: w->finish_write(s, s->wdata.size(), {}); vk::drain(); break;
          case 2: w->writes_completed++; vk::complete_write(s, 0, asio::error::access_denied); vk::drain(); vk_reach("disconnect-write-unrecoverable"); break;
          default: w->writes_completed++; vk::complete_write(s, 0, asio::error::connection_reset); vk::drain(); break;
        }
      }
      // layered stream: the shutdown of the old stream is answered by the peer, or not (5 s timer)
      if (w->shutdown_pending()) { vk_reach("shutdown-pending"); if (vk_choose(2)) w->finish_shutdown(); }
      for (int g = 0; g < 6 && (!w->ops[disc_op].done || w->shutdown_pending()); g++) {
        vk::timer_rec* best = nullptr; for (auto* t : vk::world().timers) if (t->armed && vk::timer_can_fire(t)) { best = t; break; }
        if (!best) break; vk::timer_fire(best); vk::drain();
      }
      vk_reach("disconnect");
    }
    else { destroyed = true; delete_client(); vk::drain(); vk_reach("destroyed"); }
  }
  // the broker sends a malformed packet: the client answers with a DISCONNECT of its own and leaves the connection. That write
  // succeeds, fails with a recoverable error (normal recovery: the client reconnects), or fails with an error the client cannot
  // recover from (access denied): the client then cancels itself, which must leave nothing behind, exactly like cancel().
  int nmalformed = 0;
  void ev_malformed() {
    if (stopped || !w->connected() || vk::pending_write() || nmalformed >= 1) vk_assume(0);
    nmalformed++;
    ref::wr o = w->outw(); o.u8(0x36); o.u8(0x00); w->commit(o);           // PUBLISH with QoS 3 (MQTT-3.3.1-4)
    w->feed_all(); vk::drain();
    auto* s = vk::pending_write(); vk_assert(s != nullptr, "the client answers a malformed packet with a DISCONNECT");
    switch (vk_choose(3)) {
      case 0: w->finish_write(s, s->wdata.size(), {}); vk::drain(); break;
      case 1: w->writes_completed++; vk::complete_write(s, 0, asio::error::connection_reset); vk::drain(); break;
      default: w->writes_completed++; vk::complete_write(s, 0, asio::error::access_denied); vk::drain(); stopped = true; stop_kind = 4; vk_reach("internal-cancel"); break;
    }
    if (w->shutdown_pending() && vk_choose(2)) w->finish_shutdown();
    if (stopped) {
      for (int g = 0; g < 6; g++) {
        vk::timer_rec* best = nullptr; for (auto* t : vk::world().timers) if (t->armed && vk::timer_can_fire(t)) { best = t; break; }
        if (!best) break; vk::timer_fire(best); vk::drain();
      }
    }
    vk_reach("malformed-packet");
  }
  void delete_client();
  void ev_reconnect() {
    if (stopped) vk_assume(0);
    if (w->connected()) { if (nreconn >= 1) vk_assume(0); nreconn++; w->drop_connection(); vk::drain(); }
    else if (!w->attempt_in_progress()) vk_assume(0);
    if (w->acted) { stopped = true; stop_kind = 0; return; }      // a handler that was still queued ran and cancelled the client
    bool ok = w->establish(); vk_assert(ok, "the client reconnects after a connection loss");
    w->send_connack(true, 0, nullptr, 0); w->feed_all(); vk::drain();
  }
  void check() {
    if (w->acted && !stopped) { stopped = true; stop_kind = 0; vk_reach("cancel-from-a-handler"); }
    for (int i = 0; i < w->nops; i++) {
      vk_assert(w->ops[i].done <= 1, "completion handler invoked more than once");
      if (w->ops[i].done) vk_assert(!w->ops[i].inline_completion, "completion handler invoked from inside the initiating call");
    }
    vk_assert(w->run_done <= 1 + restarted, "async_run completed more than once");
    if (stopped) {
      // everything outstanding is completed, async_run and async_receive included, and nothing is left to run
      for (int i = 0; i < w->nops; i++) vk_assert(w->ops[i].done == 1, "an operation is still outstanding after cancel() / async_disconnect / destruction");
      for (int i = 0; i < w->nops; i++) if (i != disc_op) vk_assert(w->ops[i].t_done >= 0, "harness");
      vk_assert(w->run_done == 1 + restarted || restarted, "async_run did not complete after cancel() / async_disconnect / destruction");
      vk_assert(w->receive_pending == 0, "async_receive is still outstanding after cancel() / async_disconnect / destruction");
      vk_assert(all_quiet(), "handlers are still queued");
      if (!restarted) {
        vk_assert(!vk::pending_read() && !vk::pending_write() && !vk::pending_connect() && !vk::pending_resolve(), "a socket or resolver operation is still outstanding: the execution context does not run out of work");
        for (auto* t : vk::world().timers) vk_assert(!t->armed, "a timer is still armed: the execution context does not run out of work");
        vk_assert(!w->shutdown_pending(), "a stream shutdown is still outstanding: the execution context does not run out of work");
      }
      vk_reach("drained");
    }
    if (w->cp) {
      // an identifier is held exactly while its exchange is outstanding (QoS 1/2 publish, subscribe, unsubscribe)
      int holding = 0; for (int i = 0; i < w->nops; i++) if (!w->ops[i].done && (w->ops[i].kind == 1 || w->ops[i].kind == 2 || w->ops[i].kind == 10 || w->ops[i].kind == 11)) holding++;
      vk_assert(ids_in_use(w->c) == holding, "packet identifiers in use differ from the outstanding exchanges (an id leaked or was released early)");
    }
  }
};
void X::delete_client() { w->destroy_client(); }

extern "C" void h_cancel(void) {
  X* x = new X(); W* w = x->w;
  w->start(); w->connect_ok();
  w->receive();
  for (int step = 0; step < VK_STEPS; step++) {
    if (w->acted && !x->stopped) { x->stopped = true; x->stop_kind = 0; }
    uint32_t ev = vk_choose(6 + VK_MALFORMED);
    switch (ev) {
      case 0: x->ev_start_op(); break;
      case 1: x->ev_write_done(); break;
      case 2: x->ev_answer(); break;
      case 3: x->ev_cancel_one(); break;
      case 4: x->ev_stop(); break;
      case 5: x->ev_reconnect(); break;
      default: x->ev_malformed(); break;
    }
    vk_event(10 + ev, w->nops);
    if (ev != 1) vk::drain();
    if (all_quiet()) x->check();
  }
  // restart: after a stop the client can be run again and serves requests
  if (x->stopped && !x->destroyed && x->stop_kind != 2 && x->stop_kind != 4 && w->run_done == 1) {
    x->restarted = 1;
    w->in_api = true; w->c.async_run([w](error_code ec) { w->run_done++; w->run_ec = ec.value(); }); w->in_api = false; vk::drain();
    bool ok = w->establish(); vk_assert(ok, "client connects again after async_run is called again");
    w->send_connack(false, 0, nullptr, 0); w->feed_all(); vk::drain();
    int a = w->nops < MAXOPS ? w->publish<qos_e::at_most_once>("t", "p") : -1; vk::drain();
    if (a >= 0) { auto* s = vk::pending_write(); vk_assert(s != nullptr, "restarted client writes"); w->finish_write(s, s->wdata.size(), {}); vk::drain(); vk_assert(w->ops[a].done == 1 && w->ops[a].ec == 0, "publish on the restarted client completes"); vk_reach("restarted"); }
  }
}

// cancel() / async_disconnect / destruction striking in the middle of a connection attempt (first connect or reconnect), at every
// boundary between two completion handlers: after the resolve, the TCP connect, the CONNECT write, the CONNACK, and between any
// two of the handlers these completions queue (e.g. between the accepted CONNACK and the installation of the new stream).
static bool cut_drain() { while (vk::world().q_head) { if (vk_choose(2)) return true; vk::run_one(); } return false; }
extern "C" void h_cancel_handshake(void) {
  X* x = new X(); W* w = x->w;
  bool first = vk_choose(2);
  w->c.brokers("a", 1883);
  w->in_api = true; w->c.async_run([w](error_code ec) { w->run_done++; w->run_ec = ec.value(); }); w->in_api = false;
  bool strike = false;
  if (first) { w->receive(); if (vk_choose(2)) { w->publish<qos_e::at_least_once>("t", "p"); x->nops_started++; } strike = cut_drain(); }
  else {
    vk::drain(); w->connect_ok(); w->receive();
    if (vk_choose(2)) { w->publish<qos_e::at_least_once>("t", "p"); x->nops_started++; vk::drain(); if (vk_choose(2)) if (auto* s = vk::pending_write()) { w->finish_write(s, s->wdata.size(), {}); vk::drain(); } }
    w->drop_connection(); strike = cut_drain();
    // a reconnect that wrapped around the broker list pauses on the connect timer first
    if (!strike && !vk::pending_resolve() && !vk::pending_connect()) { vk::timer_rec* t = vk::world().timers.size() > 1 ? vk::world().timers[1] : nullptr; if (t && t->armed && vk::timer_can_fire(t)) { vk::timer_fire(t); strike = cut_drain(); } }
  }
  int stage = 0;
  if (!strike) { if (auto* r = vk::pending_resolve()) { vk::complete_resolve(r, {}, 1); stage = 1; strike = cut_drain(); } }
  if (!strike) { if (auto* s = vk::pending_connect()) { vk::complete_connect(s, {}); w->new_connection(); stage = 2; strike = cut_drain(); } }
  if (!strike && stage == 2) { if (auto* s = vk::pending_write()) { w->finish_write(s, s->wdata.size(), {}); stage = 3; strike = cut_drain(); } }
  if (!strike && stage == 3) { w->send_connack(!first, 0, nullptr, 0); stage = 4; for (int g = 0; g < 8 && !strike && w->out_avail() && vk::pending_read(); g++) { w->feed(w->out_avail()); strike = cut_drain(); } if (strike && !w->out_avail()) vk_reach("struck-after-connack"); }
  if (strike) vk_reach("struck-mid-handshake");
  vk_event(30 + stage, strike);
  x->ev_stop(); vk::drain();
  vk_event(40, w->nops);
  vk_assert(all_quiet(), "handlers are still queued");
  x->check();
}

// C08, exhaustion on the real client: with every identifier in use (the free list is emptied through the access idiom - 65535
// simultaneous exchanges are out of reach otherwise) a QoS>0 publish / subscribe / unsubscribe is refused with pid_overrun and
// writes nothing; as soon as one exchange ends (identifier k released) the next request is accepted again and uses k.
extern "C" void h_pid_exhaustion(void) {
  W* wp = new W(); W& w = *wp;
  w.start(); w.connect_ok();
  auto& alloc = (*(w.c.*stolen(t_impl{}))).*stolen(t_alloc{}); auto& v = free_ids(alloc);
  v.clear();                                       // all 65535 identifiers are held by outstanding exchanges
  int refused = 1 + vk_choose(2);                  // one or two requests hit the exhausted allocator
  for (int r = 0; r < refused; r++) {
    int writes_before = vk::world().writes_started; int a;
    switch (vk_choose(4)) {
      case 0: a = w.publish<qos_e::at_least_once>("t", "p"); break;
      case 1: a = w.publish<qos_e::exactly_once>("t", "p"); break;
      case 2: a = w.subscribe({{"f", subscribe_options{}}}); break;
      default: a = w.unsubscribe({"f"}); break;
    }
    vk::drain();
    vk_assert(w.ops[a].done == 1 && w.ops[a].ec == 103, "a request made while all 65535 identifiers are in use did not end with pid_overrun");
    vk_assert(vk::world().writes_started == writes_before && !vk::pending_write(), "a request refused with pid_overrun put something on the wire");
    long free_n = 0; for (size_t i = 0; i < v.size(); i++) free_n += (long)v[i].start - (long)v[i].end;
    vk_assert(free_n == 0, "a refused request changed the set of free identifiers");
    vk_reach("refused");
  }
  // a QoS 0 publish needs no identifier and still goes out
  if (vk_choose(2)) { int z = w.publish<qos_e::at_most_once>("t", "p"); vk::drain(); auto* s = vk::pending_write(); vk_assert(s != nullptr, "QoS 0 publish is written while the identifiers are exhausted");
                      w.finish_write(s, s->wdata.size(), {}); vk::drain(); vk_assert(w.ops[z].done == 1 && w.ops[z].ec == 0, "QoS 0 publish completes while the identifiers are exhausted"); vk_reach("qos0-unaffected"); }
  // one exchange ends
  uint16_t k = vk_sym_u16(); vk_assume(k >= 1);
  alloc.free(k);
  int b = vk_choose(2) ? w.publish<qos_e::at_least_once>("t", "p") : w.subscribe({{"f", subscribe_options{}}}); vk::drain();
  vk_assert(!w.ops[b].done, "pid_overrun (or another immediate completion) although an identifier is free again");
  auto* s = vk::pending_write(); vk_assert(s != nullptr, "the request made after an identifier was released is written");
  ref::packet pk; int rv = ref::decode((const uint8_t*)s->wdata.data(), s->wdata.size(), pk); vk_assert(rv == ref::OK, "harness: decode");
  vk_assert(pk.pid == k, "the request does not use the identifier that was released");
  // and the allocator is exhausted again
  int c = w.publish<qos_e::at_least_once>("t", "p"); vk::drain();
  vk_assert(w.ops[c].done == 1 && w.ops[c].ec == 103, "a request made while all identifiers are in use again did not end with pid_overrun");
  vk_reach("recovered");
}

// cancel() called from inside the async_receive handler while more input is buffered behind the delivered message: a DISCONNECT of
// the broker in the same read. (Layered stream, io_context-like executor: the handler runs inside the loop that parses the buffer.)
extern "C" void h_cancel_in_receive(void) {
  W* wp = new W(); W& w = *wp;
  w.start(); w.connect_ok();
  int got = 0;
  w.in_api = true; w.c.async_receive([&got, &w](error_code, std::string, std::string, publish_props) { got++; w.c.cancel(); }); w.in_api = false;
  vk::drain();
  // (a QoS 0 message: it is handed over as soon as it is parsed; a QoS 1 message waits for the PUBACK write, which the DISCONNECT pre-empts)
  uint8_t payload = vk_sym_u8();
  w.publish_to_client("t", 1, &payload, 1, 0, false, 0);
  bool buffered = vk_choose(2);
  if (buffered) { ref::wr o = w.outw(); ref::enc_disconnect(o, 0x8B); w.commit(o); vk_reach("disconnect-buffered-behind-the-message"); }
  w.feed_all(); vk::drain();
  for (int g = 0; g < 8; g++) {
    if (w.shutdown_pending()) w.finish_shutdown();
    if (auto* s = vk::pending_write()) { w.finish_write(s, s->wdata.size(), {}); vk::drain(); }
    vk::timer_rec* best = nullptr; for (auto* t : vk::world().timers) if (t->armed && vk::timer_can_fire(t)) { best = t; break; }
    if (!best) break; vk::timer_fire(best); vk::drain();
  }
  vk_assert(got == 1, "the message is handed to async_receive exactly once");
  if (buffered) vk_assert(w.run_done == 1, "async_run did not complete after cancel() was called from the async_receive handler while a DISCONNECT of the broker was buffered behind the delivered message");
  else vk_assert(w.run_done == 1, "async_run did not complete after cancel() was called from the async_receive handler");
  if (w.run_done == 1) {
    vk_assert(all_quiet() && !vk::pending_read() && !vk::pending_write() && !vk::pending_connect() && !vk::pending_resolve(), "work is left after cancel() was called from the async_receive handler");
    for (auto* t : vk::world().timers) vk_assert(!t->armed, "a timer is still armed after cancel() was called from the async_receive handler");
  }
  vk_reach("cancelled-in-receive-handler");
}
