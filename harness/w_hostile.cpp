// C19 (ii): arbitrary broker bytes after the handshake, in one read or split, through the real assemble_op / read_message_op /
// replies / publish_send_op. The client's Maximum Packet Size is 32, so that its read buffer is an exact 32-byte allocation.
#include "w_client.hpp"
using namespace wc;
#ifndef VK_BYTES
#define VK_BYTES 6
#endif
#ifndef VK_FLOOD
#define VK_FLOOD 0          // 1: the symbolic bytes are followed by 40 more bytes (more than the receive buffer holds)
#endif

extern "C" void h_hostile_stream(void) {
  W* wp = new W(); W& w = *wp; w.rx_leniency = ref::L_PID0;
  w.c.connect_property(prop::maximum_packet_size, 32);
  w.start(); w.connect_ok();
  int q = w.publish<qos_e::at_least_once>("t", "Q"); vk::drain();
  auto* s = vk::pending_write(); vk_assert(s != nullptr, "PUBLISH write"); w.finish_write(s, s->wdata.size(), {}); vk::drain();
  const pkt_rec* p = w.last_of(ref::PUBLISH); vk_assert(p && p->pid == 1, "PUBLISH with packet id 1 on the wire");
  w.receive();
  // ---- the broker sends arbitrary bytes
  size_t n = 1 + vk_choose(VK_BYTES); ref::wr o = w.outw(); for (size_t i = 0; i < n; i++) o.u8(vk_sym_u8());
  // optionally the broker keeps sending: 40 more bytes, more than the 32-byte receive buffer holds
  bool flood = VK_FLOOD; if (flood) { for (int i = 0; i < 40; i++) o.u8(0x00); vk_reach("flood"); }
  w.commit(o);
  uint8_t copy[VK_BYTES + 41]; size_t total = n + (flood ? 40 : 0); for (size_t i = 0; i < total; i++) copy[i] = w.out[w.out_pos + i];
  int split = vk_choose(3); if (split && n > (size_t)split) { w.feed(split); vk::drain(); vk_reach("split"); }
  w.feed_all(); vk::drain();
  if (flood) {
    // the first packet either fits the client's Maximum Packet Size (32) or must be refused: no read may be left that can never complete
    ref::rd q = {copy, total, 1, false}; uint32_t rl = q.varint();
    if (!q.bad && (copy[0] >> 4) != 0 && q.i + rl > 32) {
      bool closing = false; if (auto* ws = vk::pending_write()) { ref::packet d; closing = ref::decode((const uint8_t*)ws->wdata.data(), ws->wdata.size(), d) == ref::OK && d.type == ref::DISCONNECT && d.rc == 0x81; }
      vk_assert(closing || !w.connected(), "a packet larger than the client's Maximum Packet Size was not refused with DISCONNECT 0x81");
      vk_reach("oversize-refused");
    }
  }
  // ---- what the bytes mean according to the reference decoder: a sequence of packets from offset 0
  size_t i = 0; bool puback_seen = false; uint8_t puback_rc = 0; bool only_harmless_before = true; bool bad_before = false;
  while (i < total && !puback_seen) {
    ref::packet k; int rv = ref::decode(copy + i, total - i, k, ref::L_OMIT_PROPS | ref::L_TRAILING | ref::L_DUP_PROPS);
    if (rv != ref::OK) { bad_before = (rv == ref::BAD); break; }
    if (k.total > 32) break;                 // larger than the client's Maximum Packet Size: refused whatever it contains (checked above)
    if (k.type == ref::PUBACK && k.pid == 1) { puback_seen = true; puback_rc = k.rc; break; }
    bool harmless = k.type == ref::PINGRESP || ((k.type == ref::PUBACK || k.type == ref::PUBREC || k.type == ref::PUBCOMP || k.type == ref::SUBACK || k.type == ref::UNSUBACK) && k.pid != 1);
    if (!harmless) only_harmless_before = false;
    i += k.total;
  }
  const op_rec& op = w.ops[q];
  vk_assert(op.done <= 1, "completion handler invoked more than once");
  if (op.done && op.ec == 0) {
    vk_assert(puback_seen, "publish completed successfully although the bytes contain no well-formed PUBACK for its packet id at a packet boundary");
    vk_assert(ref::rc_listed(ref::PUBACK, puback_rc) && op.rc == puback_rc, "publish completed with a reason code that is not the PUBACK's admissible code");
    vk_reach("completed");
  }
  if (puback_seen && only_harmless_before && ref::rc_listed(ref::PUBACK, puback_rc)) {
    vk_assert(op.done == 1 && op.ec == 0, "a well-formed PUBACK at a packet boundary did not complete the publish (recognition depends on chunking or on earlier harmless packets)");
    vk_reach("well-formed-accepted");
  }
  if (bad_before && !puback_seen) {
    // malformed input: the client answers with DISCONNECT 0x81 (if it can still write) and leaves the connection
    if (auto* ws = vk::pending_write()) { w.finish_write(ws, ws->wdata.size(), {}); vk::drain(); }
    vk_reach("malformed");
  }
  vk_assert(w.run_done == 0, "hostile bytes ended async_run");
}
