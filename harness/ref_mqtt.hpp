// Independent MQTT 5.0 reference codec for the harnesses (oracle side). Written from the OASIS MQTT Version 5.0 text
// (section numbers in comments); shares no code with the library under test. Plain C-style C++ on caller-provided buffers.
#ifndef VK_REF_MQTT_HPP
#define VK_REF_MQTT_HPP
#include <stdint.h>
#include <stddef.h>

namespace ref {

enum ptype : uint8_t { CONNECT = 1, CONNACK, PUBLISH, PUBACK, PUBREC, PUBREL, PUBCOMP, SUBSCRIBE, SUBACK, UNSUBSCRIBE, UNSUBACK, PINGREQ, PINGRESP, DISCONNECT, AUTH };

struct str { const uint8_t* p; uint32_t n; };
inline bool str_eq(str a, const void* b, size_t n) {
  if (a.n != n) return false;
  for (size_t i = 0; i < n; i++) if (a.p[i] != static_cast<const uint8_t*>(b)[i]) return false;
  return true;
}
inline bool str_eq(str a, str b) { return str_eq(a, b.p, b.n); }

// 2.2.2.2 Property: data type per identifier
enum pkind : uint8_t { K_NONE = 0, K_BYTE, K_U16, K_U32, K_VARINT, K_STR, K_BIN, K_PAIR };
inline pkind prop_kind(uint8_t id) {
  switch (id) {
    case 0x01: case 0x17: case 0x19: case 0x24: case 0x25: case 0x28: case 0x29: case 0x2A: return K_BYTE;
    case 0x13: case 0x21: case 0x22: case 0x23: return K_U16;
    case 0x02: case 0x11: case 0x18: case 0x27: return K_U32;
    case 0x0B: return K_VARINT;
    case 0x03: case 0x08: case 0x12: case 0x15: case 0x1A: case 0x1C: case 0x1F: return K_STR;
    case 0x09: case 0x16: return K_BIN;
    case 0x26: return K_PAIR;
    default: return K_NONE;
  }
}
enum pctx : uint8_t { X_CONNECT, X_WILL, X_CONNACK, X_PUBLISH, X_PUBACK, X_SUBSCRIBE, X_SUBACK, X_UNSUBSCRIBE, X_DISCONNECT, X_AUTH };
// 2.2.2.2 Table 2-4: which property may appear in which packet
inline bool prop_allowed(pctx x, uint8_t id) {
  switch (x) {
    case X_CONNECT: return id == 0x11 || id == 0x15 || id == 0x16 || id == 0x17 || id == 0x19 || id == 0x21 || id == 0x22 || id == 0x26 || id == 0x27;
    case X_WILL: return id == 0x01 || id == 0x02 || id == 0x03 || id == 0x08 || id == 0x09 || id == 0x18 || id == 0x26;
    case X_CONNACK: return id == 0x11 || id == 0x12 || id == 0x13 || id == 0x15 || id == 0x16 || id == 0x1A || id == 0x1C || id == 0x1F || id == 0x21 || id == 0x22 ||
                           id == 0x24 || id == 0x25 || id == 0x26 || id == 0x27 || id == 0x28 || id == 0x29 || id == 0x2A;
    case X_PUBLISH: return id == 0x01 || id == 0x02 || id == 0x03 || id == 0x08 || id == 0x09 || id == 0x0B || id == 0x23 || id == 0x26;
    case X_PUBACK: return id == 0x1F || id == 0x26;            // PUBACK, PUBREC, PUBREL, PUBCOMP
    case X_SUBSCRIBE: return id == 0x0B || id == 0x26;
    case X_SUBACK: return id == 0x1F || id == 0x26;            // SUBACK, UNSUBACK
    case X_UNSUBSCRIBE: return id == 0x26;
    case X_DISCONNECT: return id == 0x11 || id == 0x1C || id == 0x1F || id == 0x26;
    case X_AUTH: return id == 0x15 || id == 0x16 || id == 0x1F || id == 0x26;
  }
  return false;
}

struct prop_t { uint8_t id; uint32_t num; str a, b; };
enum { MAXP = 24, MAXT = 4, MAXC = 64 };
struct props_t {
  int n; prop_t v[MAXP];
  const prop_t* find(uint8_t id, int nth = 0) const { for (int i = 0; i < n; i++) if (v[i].id == id && nth-- == 0) return &v[i]; return nullptr; }
  int count(uint8_t id) const { int c = 0; for (int i = 0; i < n; i++) if (v[i].id == id) c++; return c; }
};

struct packet {
  uint8_t type, flags; uint32_t remaining; uint32_t total;
  bool has_pid; uint16_t pid; bool has_rc; uint8_t rc;
  props_t props; bool props_present;
  // CONNECT
  str client_id, user, pass, will_topic, will_payload; bool has_user, has_pass, has_will, clean_start, will_retain; uint8_t will_qos; uint16_t keep_alive; props_t wprops;
  // CONNACK
  uint8_t session_present;
  // PUBLISH
  str topic, payload; uint8_t qos; bool dup, retain;
  // SUBSCRIBE / UNSUBSCRIBE / SUBACK / UNSUBACK
  int ntopics; str topics[MAXT]; uint8_t opts[MAXT]; int ncodes; uint8_t codes[MAXC];
};

enum { OK = 1, INCOMPLETE = 0, BAD = -1 };
// leniencies a receiver may apply without misreading anything (used only where stated by a harness)
enum { L_OMIT_PROPS = 1 /* property length absent at the end of the packet */, L_TRAILING = 2 /* bytes after the property list */, L_DUP_PROPS = 4 /* repeated property */, L_RESERVED = 8 /* reserved bits of the CONNACK acknowledge flags */, L_PID0 = 16 /* packet identifier 0 */ };

struct rd {
  const uint8_t* p; size_t n; size_t i; bool bad;
  uint8_t u8() { if (i + 1 > n) { bad = true; return 0; } return p[i++]; }
  uint16_t u16() { if (i + 2 > n) { bad = true; return 0; } uint16_t v = (uint16_t)((p[i] << 8) | p[i + 1]); i += 2; return v; }
  uint32_t u32() { if (i + 4 > n) { bad = true; return 0; } uint32_t v = ((uint32_t)p[i] << 24) | ((uint32_t)p[i + 1] << 16) | ((uint32_t)p[i + 2] << 8) | p[i + 3]; i += 4; return v; }
  // 1.5.5 Variable Byte Integer: at most four bytes; (minimal-length encoding is required of senders, accepted here either way)
  uint32_t varint() {
    uint32_t v = 0;
    for (int k = 0; k < 4; k++) {
      if (i >= n) { bad = true; return 0; }
      uint8_t b = p[i++]; v |= (uint32_t)(b & 0x7F) << (7 * k);
      if (!(b & 0x80)) return v;
    }
    bad = true; return 0;
  }
  str lstr() { uint16_t l = u16(); if (bad || i + l > n) { bad = true; return {nullptr, 0}; } str s = {p + i, l}; i += l; return s; }
  bool done() const { return i == n; }
};

// 2.2.2 Properties: length-prefixed list; every property allowed for the packet, at most once except User Property (and
// Subscription Identifier in a PUBLISH, 3.3.2.3.8). `may_omit`: the property length itself may be absent (3.4.2.2 etc.).
inline bool parse_props(rd& r, pctx x, props_t& out, bool& present, bool may_omit, int len_flags = 0) {
  if (len_flags & L_OMIT_PROPS) may_omit = true;
  out.n = 0; present = false;
  if (r.done() && may_omit) return true;
  present = true;
  uint32_t len = r.varint();
  if (r.bad || r.i + len > r.n) return false;
  rd q = {r.p, r.i + len, r.i, false};
  while (!q.done()) {
    uint8_t id = q.u8(); pkind k = prop_kind(id);
    if (k == K_NONE || !prop_allowed(x, id)) return false;
    if (out.n >= MAXP) return false;
    prop_t& pr = out.v[out.n]; pr.id = id; pr.num = 0; pr.a = {nullptr, 0}; pr.b = {nullptr, 0};
    switch (k) {
      case K_BYTE: pr.num = q.u8(); break;
      case K_U16: pr.num = q.u16(); break;
      case K_U32: pr.num = q.u32(); break;
      case K_VARINT: pr.num = q.varint(); break;
      case K_STR: case K_BIN: pr.a = q.lstr(); break;
      case K_PAIR: pr.a = q.lstr(); pr.b = q.lstr(); break;
      default: return false;
    }
    if (q.bad) return false;
    if (id != 0x26 && !(id == 0x0B && x == X_PUBLISH) && out.count(id) != 0 && !(len_flags & L_DUP_PROPS)) return false;
    out.n++;
  }
  r.i += len;
  return true;
}

// Decode one packet at p[0..n). Returns OK / INCOMPLETE (more bytes needed) / BAD (not a well-formed MQTT 5 control packet).
inline int decode(const uint8_t* p, size_t n, packet& k, int L = 0) {
  if (n < 2) return INCOMPLETE;
  k.type = p[0] >> 4; k.flags = p[0] & 0x0F;
  rd h = {p, n > 5 ? 5 : n, 1, false};
  uint32_t rem = h.varint();
  if (h.bad) return n >= 5 ? BAD : INCOMPLETE;
  k.remaining = rem; k.total = (uint32_t)h.i + rem;
  if (n < k.total) return INCOMPLETE;
  // 2.1.3 Flags: reserved values per packet type
  if (k.type == 0) return BAD;
  if (k.type == PUBREL || k.type == SUBSCRIBE || k.type == UNSUBSCRIBE) { if (k.flags != 2) return BAD; }
  else if (k.type != PUBLISH) { if (k.flags != 0) return BAD; }
  rd r = {p, k.total, h.i, false};
  k.has_pid = false; k.pid = 0; k.has_rc = false; k.rc = 0; k.props.n = 0; k.props_present = false; k.ntopics = 0; k.ncodes = 0; k.wprops.n = 0;
  switch (k.type) {
    case CONNECT: {                                       // 3.1
      str name = r.lstr(); if (r.bad || !str_eq(name, "MQTT", 4)) return BAD;
      if (r.u8() != 5) return BAD;
      uint8_t f = r.u8(); k.keep_alive = r.u16(); if (r.bad) return BAD;
      if (f & 1) return BAD;                              // reserved bit [MQTT-3.1.2-3]
      k.clean_start = f & 2; k.has_will = f & 4; k.will_qos = (f >> 3) & 3; k.will_retain = f & 0x20; k.has_pass = f & 0x40; k.has_user = f & 0x80;
      if (!k.has_will && (k.will_qos || k.will_retain)) return BAD;
      if (k.will_qos == 3) return BAD;
      if (!parse_props(r, X_CONNECT, k.props, k.props_present, false, L)) return BAD;
      k.client_id = r.lstr();
      if (k.has_will) { bool pr; if (!parse_props(r, X_WILL, k.wprops, pr, false, L)) return BAD; k.will_topic = r.lstr(); k.will_payload = r.lstr(); }
      if (k.has_user) k.user = r.lstr();
      if (k.has_pass) k.pass = r.lstr();
      return (!r.bad && r.done()) ? OK : BAD;
    }
    case CONNACK: {                                       // 3.2
      uint8_t f = r.u8(); if (r.bad || ((f & 0xFE) && !(L & L_RESERVED))) return BAD;
      k.session_present = f & 1; k.rc = r.u8(); k.has_rc = true; if (r.bad) return BAD;
      if (!parse_props(r, X_CONNACK, k.props, k.props_present, false, L)) return BAD;
      return (r.done() || (L & L_TRAILING)) ? OK : BAD;
    }
    case PUBLISH: {                                       // 3.3
      k.dup = k.flags & 8; k.qos = (k.flags >> 1) & 3; k.retain = k.flags & 1;
      if (k.qos == 3) return BAD;
      if (k.qos == 0 && k.dup) return BAD;                // [MQTT-3.3.1-2]
      k.topic = r.lstr(); if (r.bad) return BAD;
      if (k.qos) { k.pid = r.u16(); k.has_pid = true; if (r.bad || (k.pid == 0 && !(L & L_PID0))) return BAD; }
      if (!parse_props(r, X_PUBLISH, k.props, k.props_present, false, L)) return BAD;
      k.payload = {r.p + r.i, (uint32_t)(r.n - r.i)};
      return OK;
    }
    case PUBACK: case PUBREC: case PUBREL: case PUBCOMP: { // 3.4 - 3.7: reason code and property length may be omitted
      k.pid = r.u16(); k.has_pid = true; if (r.bad || (k.pid == 0 && !(L & L_PID0))) return BAD;
      if (r.done()) { k.rc = 0; return OK; }
      k.rc = r.u8(); k.has_rc = true;
      if (!parse_props(r, X_PUBACK, k.props, k.props_present, true, L)) return BAD;
      return (r.done() || (L & L_TRAILING)) ? OK : BAD;
    }
    case SUBSCRIBE: {                                     // 3.8
      k.pid = r.u16(); k.has_pid = true; if (r.bad || k.pid == 0) return BAD;
      if (!parse_props(r, X_SUBSCRIBE, k.props, k.props_present, false, L)) return BAD;
      while (!r.done()) {
        if (k.ntopics >= MAXT) return BAD;
        k.topics[k.ntopics] = r.lstr(); uint8_t o = r.u8(); if (r.bad) return BAD;
        if (o & 0xC0) return BAD;                         // reserved bits [MQTT-3.8.3-5]
        if ((o & 3) == 3 || ((o >> 4) & 3) == 3) return BAD;
        k.opts[k.ntopics++] = o;
      }
      return k.ntopics ? OK : BAD;                        // [MQTT-3.8.3-2]
    }
    case UNSUBSCRIBE: {                                   // 3.10
      k.pid = r.u16(); k.has_pid = true; if (r.bad || k.pid == 0) return BAD;
      if (!parse_props(r, X_UNSUBSCRIBE, k.props, k.props_present, false, L)) return BAD;
      while (!r.done()) { if (k.ntopics >= MAXT) return BAD; k.topics[k.ntopics++] = r.lstr(); if (r.bad) return BAD; }
      return k.ntopics ? OK : BAD;
    }
    case SUBACK: case UNSUBACK: {                         // 3.9, 3.11
      k.pid = r.u16(); k.has_pid = true; if (r.bad || k.pid == 0) return BAD;
      if (!parse_props(r, X_SUBACK, k.props, k.props_present, false, L)) return BAD;
      while (!r.done()) { if (k.ncodes >= MAXC) return BAD; k.codes[k.ncodes++] = r.u8(); }
      return k.ncodes ? OK : BAD;
    }
    case PINGREQ: case PINGRESP: return rem == 0 ? OK : BAD;   // 3.12, 3.13
    case DISCONNECT: case AUTH: {                         // 3.14, 3.15: remaining length 0 means reason code 0, no properties
      if (r.done()) { k.rc = 0; return OK; }
      k.rc = r.u8(); k.has_rc = true;
      if (!parse_props(r, k.type == DISCONNECT ? X_DISCONNECT : X_AUTH, k.props, k.props_present, true, L)) return BAD;
      return (r.done() || (L & L_TRAILING)) ? OK : BAD;
    }
  }
  return BAD;
}

// ---------------------------------------------------------------- encoder (broker side and expected-bytes side)
struct wr {
  uint8_t* p; size_t cap; size_t n; bool ovf;
  void u8(uint8_t v) { if (n < cap) p[n] = v; else ovf = true; n++; }
  void u16(uint16_t v) { u8(v >> 8); u8(v & 0xFF); }
  void u32(uint32_t v) { u8(v >> 24); u8((v >> 16) & 0xFF); u8((v >> 8) & 0xFF); u8(v & 0xFF); }
  void varint(uint32_t v) { do { uint8_t b = v & 0x7F; v >>= 7; if (v) b |= 0x80; u8(b); } while (v); }
  void bytes(const void* s, size_t l) { for (size_t i = 0; i < l; i++) u8(static_cast<const uint8_t*>(s)[i]); }
  void lstr(const void* s, size_t l) { u16((uint16_t)l); bytes(s, l); }
};
inline size_t varint_size(uint32_t v) { return v < 128 ? 1 : v < 16384 ? 2 : v < 2097152 ? 3 : 4; }
// assemble: fixed header + body that was written into a scratch buffer
inline void frame(wr& out, uint8_t type, uint8_t flags, const uint8_t* body, size_t blen) {
  out.u8((uint8_t)((type << 4) | flags)); out.varint((uint32_t)blen); out.bytes(body, blen);
}
// property writers (append to a property scratch buffer)
inline void p_byte(wr& w, uint8_t id, uint8_t v) { w.u8(id); w.u8(v); }
inline void p_u16(wr& w, uint8_t id, uint16_t v) { w.u8(id); w.u16(v); }
inline void p_u32(wr& w, uint8_t id, uint32_t v) { w.u8(id); w.u32(v); }
inline void p_varint(wr& w, uint8_t id, uint32_t v) { w.u8(id); w.varint(v); }
inline void p_str(wr& w, uint8_t id, const void* s, size_t l) { w.u8(id); w.lstr(s, l); }
inline void p_pair(wr& w, const void* k, size_t kl, const void* v, size_t vl) { w.u8(0x26); w.lstr(k, kl); w.lstr(v, vl); }

// simple broker packets used by the whole-client harnesses
inline void enc_ack(wr& out, uint8_t type, uint16_t pid, uint8_t rc, int form /*0: pid only, 1: pid+rc, 2: pid+rc+empty props*/) {
  uint8_t b[4]; wr w = {b, sizeof b, 0, false};
  w.u16(pid); if (form >= 1) w.u8(rc); if (form >= 2) w.u8(0);
  frame(out, type, type == PUBREL ? 2 : 0, b, w.n);
}
inline void enc_ack_props(wr& out, uint8_t type, uint16_t pid, uint8_t rc, uint8_t c /* Reason String "r<c>" (3.4.2.2.2) */) {
  uint8_t b[16]; wr w = {b, sizeof b, 0, false};
  w.u16(pid); w.u8(rc); w.u8(5); w.u8(0x1F); w.u16(2); w.u8('r'); w.u8(c);
  frame(out, type, type == PUBREL ? 2 : 0, b, w.n);
}
inline void enc_connack(wr& out, bool session_present, uint8_t rc, const uint8_t* props, size_t plen) {
  uint8_t b[96]; wr w = {b, sizeof b, 0, false};
  w.u8(session_present ? 1 : 0); w.u8(rc); w.varint((uint32_t)plen); w.bytes(props, plen);
  frame(out, CONNACK, 0, b, w.n);
}
inline void enc_suback(wr& out, uint8_t type, uint16_t pid, const uint8_t* codes, size_t n) {
  uint8_t b[16]; wr w = {b, sizeof b, 0, false};
  w.u16(pid); w.u8(0); w.bytes(codes, n);
  frame(out, type, 0, b, w.n);
}
inline void enc_publish(wr& out, const void* topic, size_t tl, const void* payload, size_t pl, uint8_t qos, bool dup, bool retain, uint16_t pid, const uint8_t* props, size_t plen) {
  uint8_t b[160]; wr w = {b, sizeof b, 0, false};
  w.lstr(topic, tl); if (qos) w.u16(pid); w.varint((uint32_t)plen); w.bytes(props, plen); w.bytes(payload, pl);
  frame(out, PUBLISH, (uint8_t)((dup ? 8 : 0) | (qos << 1) | (retain ? 1 : 0)), b, w.n);
}
inline void enc_disconnect(wr& out, uint8_t rc) { uint8_t b[2] = {rc, 0}; frame(out, DISCONNECT, 0, b, 2); }

// ---------------------------------------------------------------- reason-code tables (same transcription as k_reason.cpp)
inline bool rc_listed(uint8_t type, uint8_t c) {
  switch (type) {
    case CONNACK: return c == 0x00 || (c >= 0x80 && c <= 0x8A) || c == 0x8C || c == 0x90 || c == 0x95 || c == 0x97 || (c >= 0x99 && c <= 0x9D) || c == 0x9F;
    case PUBACK: case PUBREC: return c == 0x00 || c == 0x10 || c == 0x80 || c == 0x83 || c == 0x87 || c == 0x90 || c == 0x91 || c == 0x97 || c == 0x99;
    case PUBREL: case PUBCOMP: return c == 0x00 || c == 0x92;
    case SUBACK: return c <= 0x02 || c == 0x80 || c == 0x83 || c == 0x87 || c == 0x8F || c == 0x91 || c == 0x97 || c == 0x9E || c == 0xA1 || c == 0xA2;
    case UNSUBACK: return c == 0x00 || c == 0x11 || c == 0x80 || c == 0x83 || c == 0x87 || c == 0x8F || c == 0x91;
    case DISCONNECT: return c == 0x00 || c == 0x04 || (c >= 0x80 && c <= 0x83) || c == 0x87 || c == 0x89 || c == 0x8B || (c >= 0x8D && c <= 0x90) || (c >= 0x93 && c <= 0xA2);
    case AUTH: return c == 0x00 || c == 0x18 || c == 0x19;
  }
  return false;
}
} // namespace ref
#endif
