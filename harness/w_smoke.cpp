// smoke test of the whole-client scaffold: connect, QoS 1 and QoS 2 publish round trips, subscribe, cancel
#include "w_client.hpp"
using namespace wc;
extern "C" void h_smoke(void) {
  W* w = new W();
  w->start(); w->connect_ok();
  vk_assert(w->connected(), "connected");
  vk_event(1, w->npk);
  int a = w->publish<qos_e::at_least_once>("t", "p"); vk::drain();
  auto* s = vk::pending_write(); vk_assert(s != nullptr, "write pending"); w->finish_write(s, s->wdata.size(), {}); vk::drain();
  const pkt_rec* p = w->last_of(ref::PUBLISH); vk_assert(p && p->qos == 1 && p->pid == 1, "PUBLISH seen by the broker");
  w->ack(ref::PUBACK, p->pid); w->feed_all();
  vk_event(2, w->ops[a].done * 1000 + w->ops[a].ec);
  int b = w->publish<qos_e::exactly_once>("u", "q"); vk::drain();
  s = vk::pending_write(); w->finish_write(s, s->wdata.size(), {}); vk::drain();
  p = w->last_of(ref::PUBLISH); w->ack(ref::PUBREC, p->pid, 0, 1); w->feed_all();
  s = vk::pending_write(); vk_assert(s != nullptr, "PUBREL write pending"); w->finish_write(s, s->wdata.size(), {}); vk::drain();
  vk_assert(w->last_of(ref::PUBREL) != nullptr, "PUBREL seen");
  w->ack(ref::PUBCOMP, p->pid, 0, 2); w->feed_all();
  vk_event(3, w->ops[b].done * 1000 + w->ops[b].ec);
  int c = w->subscribe({{"f/#", subscribe_options{}}}); vk::drain();
  s = vk::pending_write(); w->finish_write(s, s->wdata.size(), {}); vk::drain();
  p = w->last_of(ref::SUBSCRIBE); uint8_t code = 1; w->suback(ref::SUBACK, p->pid, &code, 1); w->feed_all();
  vk_event(4, w->ops[c].done * 1000 + w->ops[c].ec * 10 + w->ops[c].rc);
  w->c.cancel(); vk::drain();
  vk_event(5, w->run_done * 1000 + w->run_ec);
  vk_assert(w->ops[a].done == 1 && w->ops[b].done == 1 && w->ops[c].done == 1 && w->run_done == 1, "all completed once");
  vk_reach("end");
}
