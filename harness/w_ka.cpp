// C12: keep-alive on the real client under virtual time: PINGREQ every negotiated K seconds, connection abandoned after exactly
// 1.5*K seconds of silence and never earlier, nothing of the kind for K = 0. K is symbolic (configured value and Server Keep Alive).
#include "w_client.hpp"
using namespace wc;
#ifndef VK_KMAX
#define VK_KMAX 20
#endif

struct X {
  W w; uint16_t ka = 0, ska = 0; bool has_ska = false; uint32_t K = 0; bool sp = false;   // sp: Session Present of the next CONNACK
  vk::timer_rec* read_t() { return vk::world().timers[0]; }
  vk::timer_rec* ping_t() { return vk::world().timers[2]; }
  void connack() {
    uint8_t props[3] = {0x13, (uint8_t)(ska >> 8), (uint8_t)(ska & 0xFF)};
    w.send_connack(sp, 0, props, has_ska ? 3 : 0); w.feed_all(); vk::drain();
  }
  // let time pass until the next PINGREQ is handed to the stream or the client gives the connection up; returns 1 / 2 (0: nothing left)
  int advance() {
    for (int g = 0; g < 64; g++) {
      if (vk::pending_write()) return 1;
      if (!vk::pending_read() || !vk::pending_read()->connected || vk::pending_read()->shut) return 2;
      vk::timer_rec* best = nullptr; for (auto* t : vk::world().timers) if (t->armed && vk::timer_can_fire(t)) { best = t; break; }
      if (!best) return 0;
      vk::timer_fire(best); vk::drain();
    }
    return 0;
  }
  // let time pass until the given instant: timers that are due before it fire first
  void advance_to(int64_t target) {
    for (int g = 0; g < 64; g++) {
      vk::timer_rec* best = nullptr; for (auto* t : vk::world().timers) if (t->armed && vk::timer_can_fire(t) && t->deadline_ms <= target) { best = t; break; }
      if (!best) break; vk::timer_fire(best); vk::drain();
    }
    if (vk_now_ms < target) vk_now_ms = target;
  }
  // the application sends a QoS 0 message now; its write completes at once
  void traffic() {
    int a = w.publish<qos_e::at_most_once>("t", "p"); vk::drain();
    auto* s = vk::pending_write(); vk_assert(s != nullptr, "harness: publish is written"); int b = w.npk; w.finish_write(s, s->wdata.size(), {}); vk::drain();
    vk_assert(w.npk == b + 1 && w.pk[b].type == ref::PUBLISH && w.ops[a].done == 1 && w.ops[a].ec == 0, "harness: QoS 0 publish goes out");
  }
};

extern "C" void h_keepalive(void) {
  X* x = new X(); W& w = x->w;
  x->ka = vk_sym_u16(); x->has_ska = vk_choose(2); x->ska = x->has_ska ? vk_sym_u16() : 0;
  x->K = x->has_ska ? x->ska : x->ka;
  int scenario = vk_choose(6);
  bool traffic = scenario == 4; if (traffic) scenario = 1;     // scenario 1 with application traffic inside every keep-alive interval
  bool first_zero = scenario == 5; if (first_zero) scenario = 2;   // scenario 2 starting from keep-alive 0 (nothing armed) and reconnecting to K > 0
  if (scenario == 3 || first_zero) vk_assume(x->K == 0); else vk_assume(x->K >= 1 && x->K <= VK_KMAX);
  vk_assume(x->ka <= 1000);
  w.c.keep_alive(x->ka);
  w.start(); bool ok = w.establish(); vk_assert(ok, "first connection"); x->connack();
  int64_t t_connack = vk_now_ms; int64_t Kms = (int64_t)x->K * 1000;
  if (scenario == 3) {
    // K = 0: no ping, no read timeout, however long the broker stays silent
    vk_assert(!x->ping_t()->armed || x->ping_t()->max_wait, "ping timer runs although keep-alive is 0");
    vk_assert(!x->read_t()->armed || x->read_t()->max_wait, "read timeout runs although keep-alive is 0");
    int r = x->advance(); vk_assert(r == 0, "client pinged or dropped the connection although keep-alive is 0");
    vk_assert(w.count_of(ref::PINGREQ) == 0 && w.connected(), "client pinged or dropped the connection although keep-alive is 0");
    vk_reach("no-keepalive"); return;
  }
  int64_t t_ping = vk_now_ms;
  if (first_zero) {
    vk_assert(!x->ping_t()->armed || x->ping_t()->max_wait, "ping timer runs although keep-alive is 0");
    int r0 = x->advance(); vk_assert(r0 == 0 && w.count_of(ref::PINGREQ) == 0 && w.connected(), "client pinged or dropped the connection although keep-alive is 0");
    vk_reach("keepalive-zero-first");
  } else {
  vk_assert(x->ping_t()->armed && x->ping_t()->dur_ms == Kms, "ping timer is not armed with exactly the negotiated keep-alive");
  vk_assert(x->read_t()->armed && x->read_t()->dur_ms == Kms + Kms / 2, "read timeout is not exactly 1.5 x the negotiated keep-alive");
  // outgoing traffic inside the interval does not postpone the PINGREQ (the property quantifies over traffic patterns)
  if (traffic) { x->advance_to(t_connack + Kms / 2); x->traffic(); vk_reach("traffic-before-first-ping"); }
  // ---- first PINGREQ no later than K after CONNACK
  int r = x->advance(); vk_assert(r == 1, "no PINGREQ although the keep-alive interval passed");
  vk_assert(vk_now_ms - t_connack <= Kms, "first PINGREQ later than K seconds after CONNACK");
  auto* s = vk::pending_write(); int b = w.npk; w.finish_write(s, s->wdata.size(), {}); vk::drain();
  vk_assert(w.npk == b + 1 && w.pk[b].type == ref::PINGREQ, "the keep-alive write is not exactly one PINGREQ");
  t_ping = vk_now_ms; vk_reach("first-ping");
  }
  if (scenario == 0) {
    // silent broker: the connection is given up exactly 1.5 K after the last byte (the CONNACK) arrived, never earlier
    int r2 = x->advance();
    vk_assert(r2 == 2, "client did not give up a connection on which nothing arrived for 1.5 x keep-alive");
    vk_assert(vk_now_ms - t_connack == Kms + Kms / 2, "connection was not given up exactly 1.5 x keep-alive after the last byte arrived");
    vk_assert(w.count_of(ref::PINGREQ) == 1, "unexpected number of PINGREQ before the timeout");
    bool ok2 = w.establish(); vk_assert(ok2, "client reconnects after the keep-alive timeout"); vk_reach("timeout-reconnect");
  } else if (scenario == 1) {
    // the broker answers: the read timeout restarts, the next PINGREQ follows K after the previous one, no give-up
    ref::wr o = w.outw(); o.u8(0xD0); o.u8(0x00); w.commit(o); w.feed_all(); vk::drain(); int64_t t_resp = vk_now_ms;
    if (traffic) { x->advance_to(t_ping + Kms - 1); x->traffic(); vk_reach("traffic-before-second-ping"); }
    int r2 = x->advance(); vk_assert(r2 == 1, "no second PINGREQ");
    vk_assert(vk_now_ms - t_ping <= Kms, "second PINGREQ later than K seconds after the first");
    vk_assert(vk_now_ms - t_resp < Kms + Kms / 2, "harness"); vk_reach("second-ping");
    auto* s2 = vk::pending_write(); w.finish_write(s2, s2->wdata.size(), {}); vk::drain();
    // now silence: give-up exactly 1.5 K after the PINGRESP
    int r3 = x->advance(); while (r3 == 1) { auto* s3 = vk::pending_write(); w.finish_write(s3, s3->wdata.size(), {}); vk::drain(); r3 = x->advance(); }
    vk_assert(r3 == 2 && vk_now_ms - t_resp == Kms + Kms / 2, "connection was not given up exactly 1.5 x keep-alive after the last byte arrived");
    vk_reach("timeout-after-traffic");
  } else {
    // reconnect with a different Server Keep Alive (possibly 0): both timers follow the new value from then on, cycle after cycle
    uint16_t ska2 = vk_sym_u16(); vk_assume(ska2 <= VK_KMAX); if (first_zero) vk_assume(ska2 >= 1);
    w.drop_connection(); vk::drain(); bool ok2 = w.establish(); vk_assert(ok2, "client reconnects");
    // the session is resumed or not (Session Present 1 / 0): the keep-alive of the new connection applies either way
    x->sp = vk_choose(2); if (x->sp) vk_reach("new-keepalive-session-resumed");
    x->has_ska = true; x->ska = ska2; x->connack(); int64_t t2 = vk_now_ms; int64_t K2 = (int64_t)ska2 * 1000;
    // a PINGREQ that was queued while the reconnect was in progress may go out at once; complete it
    if (auto* s0 = vk::pending_write()) { w.finish_write(s0, s0->wdata.size(), {}); vk::drain(); vk_reach("ping-during-reconnect"); }
    bool zero2 = vk_concretize(ska2 == 0);
    if (zero2) {
      int before = w.count_of(ref::PINGREQ, w.epoch);
      int r2 = x->advance(); vk_assert(r2 == 0 && w.count_of(ref::PINGREQ, w.epoch) == before, "PINGREQ sent although the new Server Keep Alive is 0");
      vk_assert((!x->ping_t()->armed || x->ping_t()->max_wait) && (!x->read_t()->armed || x->read_t()->max_wait), "a keep-alive timer runs although the new Server Keep Alive is 0");
      vk_reach("new-keepalive-zero");
    } else {
      int64_t t_prev = vk_now_ms;
      for (int cycle = 0; cycle < 2; cycle++) {
        vk_assert(x->ping_t()->armed && x->ping_t()->dur_ms == K2, "ping timer does not follow the new keep-alive");
        int r2 = x->advance(); vk_assert(r2 == 1, "no PINGREQ on the new connection");
        vk_assert(vk_now_ms - t_prev <= K2, "PINGREQ on the new connection later than the new keep-alive after CONNACK / the previous PINGREQ");
        vk_assert(x->read_t()->dur_ms == K2 + K2 / 2, "read timeout does not follow the new keep-alive");
        auto* s2 = vk::pending_write(); w.finish_write(s2, s2->wdata.size(), {}); vk::drain(); t_prev = vk_now_ms;
        ref::wr o = w.outw(); o.u8(0xD0); o.u8(0x00); w.commit(o); w.feed_all(); vk::drain();      // PINGRESP keeps the connection alive
      }
      (void)t2;
    }
    vk_reach("new-keepalive");
  }
}

// arithmetic for EVERY keep-alive value: both timers right after CONNACK, no time line (no forks on K)
extern "C" void h_ka_arith(void) {
  X* x = new X(); W& w = x->w;
  x->ka = vk_sym_u16(); x->has_ska = vk_choose(2); x->ska = x->has_ska ? vk_sym_u16() : 0;
  uint32_t K = x->has_ska ? x->ska : x->ka;
  w.c.keep_alive(x->ka);
  w.start(); bool ok = w.establish(); vk_assert(ok, "first connection"); x->connack();
  bool zero = vk_concretize(K == 0);
  if (zero) {
    vk_assert(!x->ping_t()->armed || x->ping_t()->max_wait, "ping timer runs although keep-alive is 0");
    vk_assert(!x->read_t()->armed || x->read_t()->max_wait, "read timeout runs although keep-alive is 0");
    vk_reach("zero");
  } else {
    vk_assert(x->ping_t()->armed && !x->ping_t()->max_wait && x->ping_t()->dur_ns == (int64_t)K * 1000000000LL, "ping timer is not armed with exactly the negotiated keep-alive (some 16-bit value)");
    vk_assert(x->read_t()->armed && !x->read_t()->max_wait && x->read_t()->dur_ns == (int64_t)K * 1500000000LL, "read timeout is not exactly 1.5 x the negotiated keep-alive (some 16-bit value)");
    vk_reach(x->has_ska ? "server-keep-alive" : "configured-keep-alive");
  }
}
