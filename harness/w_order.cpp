// C06: PUBLISH packets leave in initiation order on every connection, also when retransmitted and when the serial number
// wraps around. Whole client + comparator kernel (write_req::operator<).
#include "w_client.hpp"
using namespace wc;
#ifndef VK_STEPS
#define VK_STEPS 6
#endif
#ifndef VK_PUBS
#define VK_PUBS 3
#endif

// access to private state (explicit-instantiation idiom): the serial counter is moved next to 2^32 so that it wraps inside the bound
using svc_t = boost::mqtt5::detail::client_service<asio::ip::tcp::socket, std::monostate, boost::mqtt5::noop_logger>;
using sender_t = boost::mqtt5::detail::async_sender<svc_t>;
template <typename Tag, typename Tag::type M> struct rob { friend typename Tag::type stolen(Tag) { return M; } };
struct t_impl { typedef std::shared_ptr<svc_t> client_t::*type; friend type stolen(t_impl); };
template struct rob<t_impl, &client_t::_impl>;
struct t_sender { typedef sender_t svc_t::*type; friend type stolen(t_sender); };
template struct rob<t_sender, &svc_t::_async_sender>;
struct t_serial { typedef uint32_t sender_t::*type; friend type stolen(t_serial); };
template struct rob<t_serial, &sender_t::_last_serial_num>;

struct X {
  W w; bool has_rm = false; uint16_t rm = 0;
  int npub = 0; uint8_t qos_of[VK_PUBS]; int op_of[VK_PUBS]; bool rec_received[VK_PUBS] = {}; int nreconn = 0;
  uint16_t acked[8]; int acked_upto[8]; int nacked = 0;
  bool is_acked(uint16_t pid, int idx) const { for (int i = 0; i < nacked; i++) if (acked[i] == pid && idx < acked_upto[i]) return true; return false; }
  void connack() {
    uint8_t props[3] = {0x21, (uint8_t)(rm >> 8), (uint8_t)(rm & 0xFF)};
    w.send_connack(true, 0, props, has_rm ? 3 : 0); w.feed_all(); vk::drain(); nacked = 0;
  }
  // index of the request a PUBLISH belongs to = first payload byte - 'A'
  int tag_of(const pkt_rec& r) { ref::packet k; bool ok = w.redecode(r, k); vk_assert(ok && k.payload.n >= 1, "harness: redecode"); return k.payload.p[0] - 'A'; }
  void check_order(int from) {
    // among the PUBLISH packets of the current connection: QoS>0 ones (all of them when no Receive Maximum) are in initiation order
    int last_q = -1, last_all = -1;
    for (int i = 0; i < w.npk; i++) {
      const pkt_rec& r = w.pk[i]; if (r.epoch != w.epoch || r.type != ref::PUBLISH) continue;
      int t = tag_of(r);
      if (r.qos > 0) { vk_assert(t > last_q, "QoS>0 PUBLISH packets left out of initiation order on this connection"); last_q = t; }
      if (!has_rm) { vk_assert(t > last_all, "PUBLISH packets left out of initiation order although no Receive Maximum applies"); last_all = t; }
      // no overtaking: every earlier-initiated publish that is still to be sent (not completed, not already past its PUBREC) and that
      // takes part in the ordering (QoS>0, or any QoS when no Receive Maximum applies) is on this connection's wire before this packet
      if (r.qos > 0 || !has_rm)
        for (int u = 0; u < t; u++) {
          if (w.ops[op_of[u]].done || rec_received[u] || (has_rm && qos_of[u] == 0)) continue;
          bool before = false; for (int j = 0; j < i; j++) if (w.pk[j].epoch == w.epoch && w.pk[j].type == ref::PUBLISH && tag_of(w.pk[j]) == u) before = true;
          vk_assert(before, "a PUBLISH overtook an earlier-initiated one that is still waiting to be sent");
        }
    }
    if (last_q >= 1 || last_all >= 1) vk_reach("two-ordered");
    (void)from;
  }
};

extern "C" void h_order(void) {
  X* x = new X(); W& w = x->w;
  x->has_rm = vk_choose(2); if (x->has_rm) { x->rm = vk_sym_u16(); vk_assume(x->rm >= 1 && x->rm <= 3); }
  // serial numbers: 0xFFFFFFFE, 0xFFFFFFFF, 0, 1 ... (wrap-around inside the bound) or the ordinary start
  if (vk_choose(2)) { svc_t& svc = *(w.c.*stolen(t_impl{})); (svc.*stolen(t_sender{})).*stolen(t_serial{}) = 0xFFFFFFFDu; vk_reach("serial-wraps"); }
  w.start(); bool ok = w.establish(); vk_assert(ok, "first connection"); x->connack();
  for (int step = 0; step < VK_STEPS; step++) {
    uint32_t ev = vk_choose(4);
    switch (ev) {
      case 0: { if (x->npub >= VK_PUBS) vk_assume(0); uint8_t q = (uint8_t)vk_choose(3); x->qos_of[x->npub] = q;
                std::string payload(1, (char)('A' + x->npub)); x->npub++;
                x->op_of[x->npub - 1] = q == 0 ? w.publish<qos_e::at_most_once>("t", payload) : q == 1 ? w.publish<qos_e::at_least_once>("t", payload) : w.publish<qos_e::exactly_once>("t", payload);
                vk::drain(); break; }
      case 1: { auto* s = vk::pending_write(); if (!s) vk_assume(0); int b = w.npk; w.finish_write(s, s->wdata.size(), {}); vk::drain(); x->check_order(b); break; }
      case 2: { // the broker acknowledges (PUBACK / PUBREC, success) the oldest unacknowledged QoS>0 PUBLISH it has
                if (!w.connected()) vk_assume(0); int j = -1;
                for (int i = 0; i < w.npk && j < 0; i++) if (w.pk[i].epoch == w.epoch && w.pk[i].type == ref::PUBLISH && w.pk[i].qos > 0 && !x->is_acked(w.pk[i].pid, i)) j = i;
                if (j < 0) vk_assume(0);
                x->acked[x->nacked] = w.pk[j].pid; x->acked_upto[x->nacked++] = w.npk;
                if (w.pk[j].qos == 2) x->rec_received[x->tag_of(w.pk[j])] = true;
                w.ack(w.pk[j].qos == 1 ? ref::PUBACK : ref::PUBREC, w.pk[j].pid, 0, 1); w.feed_all(); vk::drain(); vk_reach("acked"); break; }
      default: { if (w.connected()) { if (x->nreconn >= 1) vk_assume(0); x->nreconn++; w.drop_connection(); vk::drain(); } else if (!w.attempt_in_progress()) vk_assume(0);
                bool ok2 = w.establish(); vk_assert(ok2, "the client reconnects");
                // every connection announces its own Receive Maximum, or none
                { bool before = x->has_rm; x->has_rm = vk_choose(2); if (x->has_rm) { x->rm = vk_sym_u16(); vk_assume(x->rm >= 1 && x->rm <= 3); } if (before != x->has_rm) vk_reach("receive-maximum-comes-or-goes"); }
                x->connack(); x->check_order(0); vk_reach("reconnected"); break; }
    }
    vk_event(10 + ev, w.npk);
  }
}

// ---- kernel: the comparator behind the stable sort
#include <boost/mqtt5/impl/async_sender.hpp>
extern "C" void h_cmp(void) {
  using boost::mqtt5::detail::write_req; namespace sf = boost::mqtt5::detail::send_flag;
  uint32_t s1 = vk_sym_u32(), s2 = vk_sym_u32(), s3 = vk_sym_u32();
  unsigned f1 = vk_sym_u8() & 7, f2 = vk_sym_u8() & 7, f3 = vk_sym_u8() & 7;
  write_req a(asio::const_buffer(), s1, f1, {}), b(asio::const_buffer(), s2, f2, {}), c(asio::const_buffer(), s3, f3, {});
  bool pa = f1 & sf::prioritized, pb = f2 & sf::prioritized, pc = f3 & sf::prioritized;
  vk_assert(!(a < a), "operator< is not irreflexive");
  vk_assert(!((a < b) && (b < a)), "operator< is not asymmetric");
  if (pa && !pb) vk_assert(a < b, "a prioritised request does not sort before a non-prioritised one");
  if (pa == pb && s1 != s2 && (uint32_t)(s2 - s1) < 0x80000000u) { vk_assert(a < b && !(b < a), "requests within a window of 2^31 serials are not ordered by initiation (wrap-around)"); vk_reach("window-order"); }
  // transitivity for three requests of one priority class whose serials lie within a window of 2^31 (enough for 2^31 requests in flight)
  if (pa == pb && pb == pc && (uint32_t)(s2 - s1) < 0x40000000u && (uint32_t)(s3 - s2) < 0x40000000u) {
    if ((a < b) && (b < c)) { vk_assert(a < c, "operator< is not transitive inside a window"); vk_reach("transitive"); }
  }
}
