// C01 / C02 / C03 / C06: QoS 1/2 publishing on the real client against a broker model that answers correctly, wrongly,
// late or not at all, with connection loss and reconnect anywhere. One event machinery, several monitors.
#include "w_client.hpp"
using namespace wc;
#ifndef VK_STEPS
#define VK_STEPS 6
#endif
#ifndef VK_REQS
#define VK_REQS 2
#endif
#ifndef VK_RM
#define VK_RM 0             // Receive Maximum announced by the broker (0: none)
#endif
#ifndef VK_DROP
#define VK_DROP 0            // how the connection dies: 0 reset, 1 eof / broken pipe, 2 aborted, 3 seen by the reader only (write in flight is aborted by the reconnect), 9 any of them (forked)
#endif
#ifndef VK_RFAULT
#define VK_RFAULT 0          // 1: a reconnect may first run into a refused / failing / silent / unresolvable attempt
#endif
#ifndef VK_MODE      // 1: C01, 2: C02, 3: C03, 6: C06
#define VK_MODE 1
#endif
#ifndef VK_ACK_VARIANTS
#define VK_ACK_VARIANTS (VK_MODE == 1 ? 7 : 6)   // the 7th variant (acknowledgement with properties) matters to C01's oracle only
#endif

struct req_t { int op; uint8_t qos; uint8_t tag; uint8_t t1, p1; bool retain; bool has_exp; uint32_t exp; };
struct ack_t { uint8_t type; uint16_t pid; uint8_t rc; int epoch; int after_pk; bool valid; bool consumed; bool answers; bool parked; bool has_rs; uint8_t rs1; };

struct X {
  W w;
  req_t reqs[VK_REQS]; int nreq = 0;
  ack_t acks[16]; int nacks = 0;
  int nreconn = 0, nbad = 0, nearly = 0, npartial = 0, bad_epoch = -1;
  uint8_t first_tx[VK_REQS][48]; size_t first_tx_len[VK_REQS]; bool have_first[VK_REQS]; int tx_ok_before[VK_REQS];

  // ---- helpers over the packet log
  // the request a PUBLISH packet belongs to (by the concrete tag byte in the payload), or -1
  int req_of(const pkt_rec& r) {
    ref::packet k; if (!w.redecode(r, k) || k.type != ref::PUBLISH || k.payload.n < 1) return -1;
    for (int i = 0; i < nreq; i++) if (k.payload.p[0] == reqs[i].tag) return i;
    return -1;
  }
  // does this PUBLISH carry exactly what request i asked for?
  void check_faithful(const pkt_rec& r, int i) {
    ref::packet k; bool ok = w.redecode(r, k); vk_assert(ok, "harness: redecode");
    const req_t& q = reqs[i];
    vk_assert(k.qos == q.qos, "PUBLISH on the wire has a different QoS than requested");
    vk_assert(k.retain == q.retain, "PUBLISH on the wire has a different RETAIN flag than requested");
    vk_assert(k.topic.n == 2 && k.topic.p[0] == 't' && k.topic.p[1] == q.t1, "PUBLISH on the wire has a different topic than requested");
    vk_assert(k.payload.n == 2 && k.payload.p[1] == q.p1, "PUBLISH on the wire has a different payload than requested");
    const ref::prop_t* e = k.props.find(0x02);
    vk_assert((e != nullptr) == q.has_exp && (!e || e->num == q.exp), "PUBLISH on the wire has different properties than requested");
    vk_assert(k.props.n == (q.has_exp ? 1 : 0), "PUBLISH on the wire carries properties that were not requested");
  }
  // answers: the packet is the broker's (only) answer to what it owed for (type, pid) on this connection, well-formed or not
  void log_ack(uint8_t type, uint16_t pid, uint8_t rc, bool valid, bool answers) {
    vk_assert(nacks < 16, "harness: ack log capacity");
    acks[nacks++] = ack_t{type, pid, rc, w.epoch, w.npk, valid, false, answers, false, false, 0};
  }
  // ---- events
  void ev_publish() {
    if (nreq >= VK_REQS) vk_assume(0);
    req_t& q = reqs[nreq]; q.tag = (uint8_t)('A' + nreq);
    // request 0: QoS 2, optionally with Message Expiry; request 1: QoS 1 (both kinds of exchange within few steps)
    q.qos = VK_REQS == 1 ? (vk_choose(2) ? 2 : 1) : (nreq == 0 ? 2 : 1);
    q.t1 = vk_sym_u8(); q.p1 = vk_sym_u8();
    vk_assume(q.t1 >= 'a' && q.t1 <= 'z');               // a valid topic character; validation itself is C16's subject
    q.retain = vk_sym_u8() & 1; q.has_exp = nreq == 0 ? vk_choose(2) : 0; q.exp = q.has_exp ? vk_sym_u32() : 0;
    publish_props pp; if (q.has_exp) pp[prop::message_expiry_interval] = q.exp;
    std::string topic = "t"; topic.push_back((char)q.t1);
    std::string payload; payload.push_back((char)q.tag); payload.push_back((char)q.p1);
    have_first[nreq] = false; tx_ok_before[nreq] = 0;
    q.op = q.qos == 1 ? w.publish<qos_e::at_least_once>(topic, payload, q.retain ? retain_e::yes : retain_e::no, pp)
                      : w.publish<qos_e::exactly_once>(topic, payload, q.retain ? retain_e::yes : retain_e::no, pp);
    nreq++; vk::drain();
  }
  void ev_write_done() {
    auto* s = vk::pending_write(); if (!s) vk_assume(0);
    int before = w.npk; bool was_early = s->delivered_early;
    // the transport may take the write in two pieces (half-written packet); the composed write continues with the rest
    if (!was_early && s->wdata.size() > 3 && npartial < 1 && vk_choose(2)) {
      npartial++; w.finish_write(s, 3, {}); vk::drain(); vk_reach("partial-write");
      s = vk::pending_write(); if (!s) { on_new_packets(before); return; }
    }
    w.finish_write(s, s->wdata.size(), {}); vk::drain();
    if (was_early) for (int q = 0; q < VK_REQS; q++) if (early_req[q]) { tx_ok_before[q]++; early_req[q] = false; }
    if (was_early) for (int a = 0; a < nacks; a++) if (acks[a].epoch == w.epoch && acks[a].parked) { acks[a].parked = false; acks[a].consumed = true; }
    on_new_packets(before);
  }
  // the broker already has the bytes of the write in progress (and may answer) while the client has not yet seen its write complete
  void ev_early_delivery() {
    auto* s = vk::pending_write(); if (!s || s->delivered_early || nearly >= 1) vk_assume(0);
    nearly++; int before = w.npk; early_from = before; w.deliver_early(s); early_mode = true; on_new_packets(before); early_mode = false; vk_reach("early-delivery");
  }
  // what the broker owes next to the oldest exchange it has seen on this connection: type and pid, or 0
  uint8_t owed(uint16_t& pid) {
    for (int i = 0; i < w.npk; i++) {
      const pkt_rec& r = w.pk[i]; if (r.epoch != w.epoch) continue;
      if (r.type == ref::PUBLISH && r.qos > 0) {
        uint8_t t = r.qos == 1 ? ref::PUBACK : ref::PUBREC; bool answered = false;
        for (int a = 0; a < nacks; a++) if (acks[a].epoch == w.epoch && acks[a].answers && acks[a].type == t && acks[a].pid == r.pid && acks[a].after_pk > i) answered = true;
        if (!answered) { pid = r.pid; return t; }
      }
      if (r.type == ref::PUBREL) {
        bool answered = false;
        for (int a = 0; a < nacks; a++) if (acks[a].epoch == w.epoch && acks[a].answers && acks[a].type == ref::PUBCOMP && acks[a].pid == r.pid && acks[a].after_pk > i) answered = true;
        if (!answered) { pid = r.pid; return ref::PUBCOMP; }
      }
    }
    return 0;
  }
  void deliver(int chunking) {
    if (chunking == 1 && w.out_avail() > 1) { w.feed(1); vk::drain(); }
    if (chunking == 2 && w.out_avail() > 1) { w.feed(w.out_avail() - 1); vk::drain(); }
    // an acknowledgement that overtakes the completion of the client's own write is parked by the client (fast reply); it counts
    // as consumed only once the write completion has been processed on the same connection
    // (only an answer to a packet of that very write overtakes it; answers to packets of earlier, completed writes are consumed at once)
    bool pend_early = vk::pending_write() && vk::pending_write()->delivered_early && early_from >= 0;
    w.feed_all(); vk::drain();
    for (int a = 0; a < nacks; a++) if (acks[a].epoch == w.epoch && !acks[a].parked) {
      bool overtaking = false;
      if (pend_early && !acks[a].consumed)
        for (int j = early_from; j < w.npk; j++) {
          const pkt_rec& r = w.pk[j]; if (r.epoch != w.epoch || r.pid != acks[a].pid) continue;
          if (r.type == ref::PUBLISH && (acks[a].type == ref::PUBACK || acks[a].type == ref::PUBREC)) overtaking = true;
          if (r.type == ref::PUBREL && acks[a].type == ref::PUBCOMP) overtaking = true;
        }
      if (overtaking) acks[a].parked = true; else acks[a].consumed = true;
    }
  }
  void ev_correct_ack() {
    uint16_t pid = 0; uint8_t t = owed(pid);
    if (!t || !w.connected_or_writing()) vk_assume(0);
    // one variation per event: short forms, a non-zero listed code, two chunkings
    uint8_t rc = 0; int form = 1; int chunk = 0;
    switch (vk_choose(VK_ACK_VARIANTS)) {
      case 0: form = 1; break;
      case 1: form = 0; break;
      case 2: form = 2; break;
      case 3: rc = t == ref::PUBCOMP ? 0x92 : t == ref::PUBREC ? 0x97 : 0x10; break;      // PUBREC >= 0x80 ends the exchange
      case 4: chunk = 1; break;
      case 5: chunk = 2; form = 2; break;
      default: form = 3; break;                                                           // with a Reason String (one symbolic character)
    }
    log_ack(t, pid, rc, true, true);
    if (form == 3) { uint8_t c = vk_sym_u8(); vk_assume(c >= 0x20 && c < 0x7F); acks[nacks - 1].has_rs = true; acks[nacks - 1].rs1 = c; w.ack_with_reason(t, pid, rc, c); vk_reach("ack-with-properties"); }
    else w.ack(t, pid, rc, form);
    deliver(chunk);
    vk_reach(t == ref::PUBACK ? "puback" : t == ref::PUBREC ? "pubrec" : "pubcomp");
  }
  void ev_bad_packet() {
    if (nbad >= 1 || !w.connected() || nreq == 0) vk_assume(0);
    nbad++; bad_epoch = w.epoch;
    uint16_t pid = 0; uint8_t t = owed(pid); if (!t) { t = ref::PUBACK; pid = 1; }
    switch (vk_choose(4)) {
      case 0: log_ack(t, (uint16_t)(pid + 7), 0, false, false); w.ack(t, (uint16_t)(pid + 7), 0, 1); break;                    // right type, identifier nobody uses
      case 1: { // a reply type that is never part of this exchange: PUBACK for a QoS 2 exchange, PUBREC for a QoS 1 exchange
                // (the QoS of the exchange that uses this identifier: from the packet if the broker has it, else from the oldest open request)
                uint8_t q = 1; for (int i = 0; i < nreq; i++) if (!w.ops[reqs[i].op].done) { q = reqs[i].qos; break; }
                // (packets of exchanges that are already over do not count: their identifier may belong to a new request by now)
                for (int i = 0; i < w.npk; i++) if (w.pk[i].epoch == w.epoch && w.pk[i].type == ref::PUBLISH && w.pk[i].pid == pid) { int rq = req_of(w.pk[i]); if (rq >= 0 && w.ops[reqs[rq].op].done) continue; q = w.pk[i].qos; }
                uint8_t wrong = q == 2 ? ref::PUBACK : ref::PUBREC; log_ack(wrong, pid, 0, false, false); w.ack(wrong, pid, 0, 1); break; }
      case 2: { uint8_t rc = vk_sym_u8(); vk_assume(!ref::rc_listed(t, rc)); log_ack(t, pid, rc, false, true); w.ack(t, pid, rc, 1); break; }           // inadmissible reason code
      default: { log_ack(t, pid, 0, false, true); ref::wr o = w.outw(); uint8_t b[5] = {(uint8_t)(pid >> 8), (uint8_t)pid, 0, 0x7F, 0x1F};            // property length beyond the packet
                 ref::frame(o, t, 0, b, 5); w.commit(o); break; }
    }
    deliver(0); vk_reach("bad-packet");
  }
  void ev_reconnect() {
    if (w.connected()) {
      if (nreconn >= 1) vk_assume(0);
      nreconn++;
      // a write in progress fails, or succeeds locally while its bytes are lost with the connection
      if (auto* ps = vk::pending_write()) if (!ps->delivered_early) {
        int how = (int)vk_choose(3);
        if (how == 1) { w.lose_write(ps); vk::drain(); for (int q = 0; q < nreq; q++) lost_tx[q] = true; vk_reach("write-lost-in-flight"); }
        else if (how == 2 && ps->wdata.size() > 3) { for (size_t i = 0; i < 3 && w.rx_n < RXCAP; i++) w.rx[w.rx_n++] = (uint8_t)ps->wdata[i]; vk_reach("write-failed-after-partial-delivery"); }   // the broker got the first bytes, then the write fails
      }
      w.drop_connection_any(VK_DROP); vk::drain(); for (int q = 0; q < VK_REQS; q++) early_req[q] = false;
    } else if (!w.attempt_in_progress()) vk_assume(0);      // the client itself left the connection (e.g. after DISCONNECT 0x81) and is reconnecting
    int before = w.npk;
#if VK_RFAULT
    // the first attempt(s) to come back fail: TCP refused, CONNACK with a failure code, silent broker (5 s), resolve error
    for (int nf = 0; nf < VK_RFAULT; nf++) {
      int how = (int)vk_choose(5); if (how == 0) break;
      bool fa = w.failed_attempt(how); vk_assert(fa, "the client tries to connect again after a failed attempt");
      if (how == 2 || how == 3) vk_assert(w.count_of(ref::PUBLISH, w.epoch) == 0, "a PUBLISH was written on a connection whose CONNECT was never accepted");
      on_new_packets(before); before = w.npk; stamp_epoch();
      vk_reach(how == 1 ? "attempt-refused" : how == 2 ? "connack-refused" : how == 3 ? "attempt-timed-out" : "resolve-failed");
    }
#endif
    bool ok = w.establish(); vk_assert(ok, "the client reconnects after a connection loss");
    static const uint8_t rm_props[3] = {0x21, 0, VK_RM};
    w.send_connack(true, 0, VK_RM ? rm_props : nullptr, VK_RM ? 3 : 0); w.feed_all(); vk::drain();
    on_new_packets(before);
    vk_reach("reconnected");
  }
  // ---- wire monitors (C03: retransmissions)
  bool early_mode = false; bool early_req[VK_REQS] = {}; bool lost_tx[VK_REQS] = {}; int early_from = -1;   // first packet of the write the broker obtained early
  void on_new_packets(int from) {
    for (int i = from; i < w.npk; i++) {
      const pkt_rec& r = w.pk[i];
#if VK_MODE == 3
      // PUBREL is (re)transmitted only until PUBCOMP arrives: none once a well-formed PUBCOMP (any listed code) for the exchange was consumed
      if (r.type == ref::PUBREL)
        for (int a = 0; a < nacks; a++)
          if (acks[a].valid && acks[a].type == ref::PUBCOMP && acks[a].consumed && !acks[a].parked && acks[a].pid == r.pid && acks[a].after_pk <= i) {
            bool new_exchange = false; for (int j = acks[a].after_pk; j < i; j++) if (w.pk[j].type == ref::PUBLISH && w.pk[j].pid == r.pid) new_exchange = true;
            if (!new_exchange) vk_assert(false, "PUBREL transmitted again after the PUBCOMP for it was consumed (the exchange does not end)");
          }
#endif
      if (r.type != ref::PUBLISH || r.qos == 0) continue;
      int q = req_of(r); vk_assert(q >= 0, "PUBLISH on the wire that no request asked for");
#if VK_MODE == 3 || VK_MODE == 1
      check_faithful(r, q);
#endif
#if VK_MODE == 3
      const uint8_t* bytes = w.rx + r.off;
      if (!have_first[q]) {
        // (a transmission that was written locally but lost with the connection is invisible to the broker: then the first one it sees may carry DUP)
        if (!lost_tx[q]) vk_assert(!r.dup, "first transmission of a PUBLISH has DUP set");
        vk_assert(r.len <= 48, "harness: packet size"); for (uint32_t b = 0; b < r.len; b++) first_tx[q][b] = bytes[b]; first_tx_len[q] = r.len; have_first[q] = true;
      } else {
        vk_assert(r.len == first_tx_len[q], "retransmitted PUBLISH differs in length from the first transmission");
        for (uint32_t b = 1; b < r.len; b++) vk_assert(bytes[b] == first_tx[q][b], "retransmitted PUBLISH is not byte-identical to the first transmission");
        vk_assert((bytes[0] & ~8) == (first_tx[q][0] & ~8), "retransmitted PUBLISH differs in its flags beyond DUP");
        if (!lost_tx[q]) vk_assert(r.dup == (tx_ok_before[q] > 0), "DUP must be set exactly when an earlier transmission had been written successfully");
        else if (tx_ok_before[q] > 0) vk_assert(r.dup, "DUP must be set when an earlier transmission had been written successfully");
        vk_reach("retransmitted");
      }
      // "written successfully" is the client's view: a transmission the broker got early counts once the client's write completes
      if (early_mode) early_req[q] = true; else tx_ok_before[q]++;
      // no PUBLISH again once a successful PUBREC for this exchange was consumed
      for (int a = 0; a < nacks; a++)
        if (acks[a].valid && acks[a].type == ref::PUBREC && acks[a].rc < 0x80 && acks[a].consumed && acks[a].pid == r.pid && acks[a].after_pk <= i) {
          // the PUBREC must belong to this request (same payload tag on the PUBLISH it answered)
          bool same_req = false; for (int j = 0; j < acks[a].after_pk && j < w.npk; j++) if (w.pk[j].type == ref::PUBLISH && w.pk[j].pid == r.pid && req_of_any(j) == q) same_req = true;
          if (same_req) vk_assert(false, "PUBLISH transmitted again after a successful PUBREC for it was consumed");
        }
#endif
    }
  }
  void stamp_epoch() { for (int i = 0; i < w.npk; i++) { pkt_rec& r = w.pk[i]; if (r.aux == -1 && r.type == ref::PUBLISH && r.epoch == w.epoch) r.aux = req_of(r); } }
  // req_of for packets of earlier connections: compare through the saved first transmission
  int req_of_any(int j) {
    if (w.pk[j].epoch == w.epoch) return req_of(w.pk[j]);
    return w.pk[j].aux;
  }
  // the exchange ends with the final acknowledgement: once a well-formed PUBACK / PUBCOMP (any listed code) that answers this request's
  // packet was consumed by the client, the request has completed (nothing is retransmitted for it any more)
  void check_exchange_ends() {
    for (int a = 0; a < nacks; a++) {
      const ack_t& k = acks[a]; if (!k.valid || !k.answers || !k.consumed || k.parked) continue;
      if (k.type != ref::PUBACK && k.type != ref::PUBCOMP) continue;
      if (k.epoch == bad_epoch) continue;      // the client gives up a connection on which it saw a malformed / unsolicited packet: what arrives there afterwards need not count
      int rq = -1;
      for (int j = 0; j < k.after_pk && j < w.npk; j++) if (w.pk[j].type == ref::PUBLISH && w.pk[j].pid == k.pid) rq = req_of_any(j);   // the latest exchange with that identifier
      if (rq < 0 || reqs[rq].qos != (k.type == ref::PUBACK ? 1 : 2)) continue;
      vk_assert(w.ops[reqs[rq].op].done == 1, "the exchange did not end with its final acknowledgement: a well-formed PUBACK / PUBCOMP was consumed and the publish is still outstanding");
    }
  }
  // ---- application monitors
  void check_completions() {
#if VK_MODE == 3 || VK_MODE == 2
    check_exchange_ends();
#endif
    for (int i = 0; i < nreq; i++) {
      const op_rec& o = w.ops[reqs[i].op];
      vk_assert(o.done <= 1, "completion handler invoked more than once");
      if (!o.done) continue;
#if VK_MODE == 2
      vk_assert(o.ec == 0, "an accepted, un-cancelled publish completed with an error");
#endif
      if (o.ec != 0) continue;
#if VK_MODE == 1
      // success: the broker received the PUBLISH and afterwards sent the final acknowledgement for its packet id
      uint8_t fin = reqs[i].qos == 1 ? ref::PUBACK : ref::PUBCOMP; bool found = false;
      for (int a = 0; a < nacks && !found; a++) {
        const ack_t& k = acks[a]; if (!k.valid || !k.consumed) continue;
        bool is_final = k.type == fin || (reqs[i].qos == 2 && k.type == ref::PUBREC && k.rc >= 0x80);
        if (!is_final) continue;
        // QoS 1 / failing PUBREC: this request's PUBLISH with that id was received on that connection before the ack was sent.
        // PUBCOMP: a PUBREL with that id was received on that connection before it, and this request's PUBLISH with that id earlier.
        bool seen = false;
        if (k.type == ref::PUBCOMP) {
          bool rel = false, pub = false;
          for (int j = 0; j < k.after_pk && j < w.npk; j++) {
            if (w.pk[j].type == ref::PUBLISH && w.pk[j].pid == k.pid && req_of_any(j) == i) pub = true;
            if (w.pk[j].epoch == k.epoch && w.pk[j].type == ref::PUBREL && w.pk[j].pid == k.pid && pub) rel = true;
          }
          seen = rel;
        } else
          for (int j = 0; j < k.after_pk && j < w.npk; j++) if (w.pk[j].epoch == k.epoch && w.pk[j].type == ref::PUBLISH && w.pk[j].pid == k.pid && req_of_any(j) == i) seen = true;
        if (seen && o.rc == k.rc) {
          found = true;
          // ... and the properties handed to the handler are the ones of that acknowledgement (PUBACK / PUBCOMP)
          if (k.type == fin) {
            vk_assert(o.has_rs == k.has_rs && (!k.has_rs || (o.rs_len == 2 && o.rs1 == k.rs1)), "the properties handed to the publish handler are not the ones contained in the final acknowledgement (Reason String)");
            vk_assert(o.nuser == 0, "the publish handler received User Properties the acknowledgement did not contain");
          }
        }
      }
      vk_assert(found, "publish completed successfully without the broker having received it and sent the final acknowledgement with that reason code");
      vk_reach("success-checked");
#endif
    }
  }
};

// remember, for packets of a finished connection, which request they belonged to (the rx buffer is per connection)
static void stamp_requests(X* x, int from) {
  for (int i = from; i < x->w.npk; i++) { pkt_rec& r = x->w.pk[i]; r.aux = (r.type == ref::PUBLISH && r.epoch == x->w.epoch) ? x->req_of(r) : -1; }
}

extern "C" void h_pub(void) {
  X* x = new X(); W& w = x->w;
  static const uint8_t rm_props[3] = {0x21, 0, VK_RM};
  w.start(); w.connect_ok(false, VK_RM ? rm_props : nullptr, VK_RM ? 3 : 0);
  int stamped = w.npk;
  for (int step = 0; step < VK_STEPS; step++) {
    uint32_t ev = vk_choose(6);
    switch (ev) {
      case 0: x->ev_publish(); break;
      case 1: x->ev_write_done(); break;
      case 2: x->ev_correct_ack(); break;
      case 3: x->ev_bad_packet(); break;
      case 4: x->ev_early_delivery(); break;
      default: stamp_requests(x, stamped); stamped = w.npk; x->ev_reconnect(); break;
    }
    stamp_requests(x, stamped); stamped = w.npk;
    vk_event(10 + ev, w.npk);
    x->check_completions();
  }
#if VK_MODE == 2
  // fault-free suffix: the broker stays reachable and answers everything; every accepted request must complete
  for (int round = 0; round < 10; round++) {
    bool progress = false;
    if (!w.connected() && !vk::pending_write()) { int b = w.npk; if (w.establish()) { static const uint8_t rmp[3] = {0x21, 0, VK_RM}; w.send_connack(true, 0, VK_RM ? rmp : nullptr, VK_RM ? 3 : 0); w.feed_all(); vk::drain(); x->on_new_packets(b); progress = true; } }
    if (auto* s = vk::pending_write()) { int b = w.npk; w.finish_write(s, s->wdata.size(), {}); vk::drain(); x->on_new_packets(b); progress = true; }
    uint16_t pid = 0; uint8_t t;
    while ((t = x->owed(pid)) != 0 && w.connected()) { x->log_ack(t, pid, 0, true, true); w.ack(t, pid, 0, 1); x->deliver(0); progress = true; }
    stamp_requests(x, stamped); stamped = w.npk;
    if (!progress) break;
  }
  x->check_completions();
  for (int i = 0; i < x->nreq; i++) vk_assert(w.ops[x->reqs[i].op].done == 1, "an accepted publish never completed although the broker stayed reachable and answered everything");
  if (x->nreq == VK_REQS) vk_reach("all-requests-completed");
#endif
  int done = 0; for (int i = 0; i < x->nreq; i++) done += w.ops[x->reqs[i].op].done;
  if (done) vk_reach("a-publish-completed");
}

// C01, guided schedule with forks: an acknowledgement the broker repeats (or sends unsolicited) for a packet identifier whose
// exchange is over must never complete a later publish that reuses the identifier and has not been written yet - because it sits
// behind a write in progress, or waits for quota (Receive Maximum 1). The later publish completes only with the acknowledgement
// the broker sends after it received that PUBLISH, and with its reason code.
extern "C" void h_pub_stale(void) {
  W* wp = new W(); W& w = *wp;
  bool throttled = vk_choose(2);          // B waits for quota behind A2 (Receive Maximum 1) / B waits behind a write in progress
  static const uint8_t rm1[3] = {0x21, 0, 1};
  w.start(); w.connect_ok(false, throttled ? rm1 : nullptr, throttled ? 3 : 0);
  bool q2 = vk_choose(2);                 // both publishes QoS 1 / both QoS 2
  uint8_t fin = q2 ? ref::PUBCOMP : ref::PUBACK;
  auto pub = [&](const char* payload) { return q2 ? w.publish<qos_e::exactly_once>("t", payload) : w.publish<qos_e::at_least_once>("t", payload); };
  auto write_done = [&]() { auto* s = vk::pending_write(); vk_assert(s != nullptr, "harness: a write is in progress"); w.finish_write(s, s->wdata.size(), {}); vk::drain(); };
  // ---- exchange A runs to its end with identifier 1
  int a = pub("A"); vk::drain(); write_done();
  const pkt_rec* pa = w.last_of(ref::PUBLISH); vk_assert(pa && pa->pid == 1, "harness: first publish uses identifier 1");
  if (q2) { w.ack(ref::PUBREC, 1, 0, 1); w.feed_all(); vk::drain(); write_done(); }
  w.ack(fin, 1, 0, 1); w.feed_all(); vk::drain();
  vk_assert(w.ops[a].done == 1 && w.ops[a].ec == 0, "harness: first publish completes");
  // ---- something keeps B from being written at once
  int blocker;
  if (throttled) { blocker = pub("X"); vk::drain(); write_done(); }                         // X (identifier 1 again) is in flight and holds the only unit of quota
  else { blocker = w.publish<qos_e::at_most_once>("t", "X"); vk::drain(); vk_assert(vk::pending_write() != nullptr, "harness: write in progress"); }
  int order = vk_choose(2);               // the stale acknowledgement arrives before or after B is initiated
  uint16_t bpid = throttled ? 2 : 1;      // the identifier B will get
  auto stale = [&]() { uint8_t t = vk_choose(2) ? fin : (q2 ? ref::PUBREC : fin); w.ack(t, bpid, 0, 1); w.feed_all(); vk::drain(); vk_reach("stale-ack"); };
  if (throttled) { /* identifier 2 was never used: an unsolicited acknowledgement for it */ }
  if (order == 0) stale();
  int b = pub("B"); vk::drain();
  if (order == 1) stale();
  vk_assert(!w.ops[b].done, "a publish that has not been written yet completed (with an acknowledgement the broker sent before it received that PUBLISH)");
  // ---- the blocker goes away, B is written
  int before = w.npk;
  if (throttled) { if (q2) { w.ack(ref::PUBREC, 1, 0, 1); w.feed_all(); vk::drain(); write_done(); } w.ack(fin, 1, 0, 1); w.feed_all(); vk::drain(); vk_assert(w.ops[blocker].done == 1, "harness: blocker completes"); }
  else { write_done(); vk_assert(w.ops[blocker].done == 1, "harness: QoS 0 publish completes"); }
  vk_assert(!w.ops[b].done, "a publish completed before the broker received it");
  if (vk::pending_write()) write_done();
  const pkt_rec* pb = nullptr; for (int i = before; i < w.npk; i++) if (w.pk[i].type == ref::PUBLISH && w.pk[i].qos > 0 && w.pk[i].pid == bpid) pb = &w.pk[i];
  vk_assert(pb != nullptr, "the second publish was written with the expected identifier once nothing held it back");
  vk_assert(!w.ops[b].done, "a publish completed with an acknowledgement the broker sent before it received that PUBLISH");
  // ---- now the broker answers B, with a code of its own
  uint8_t rc = q2 ? 0x92 : 0x10;
  if (q2) { w.ack(ref::PUBREC, bpid, 0, 1); w.feed_all(); vk::drain(); write_done(); vk_assert(!w.ops[b].done, "QoS 2 publish completed before PUBCOMP"); }
  w.ack(fin, bpid, rc, 1); w.feed_all(); vk::drain();
  vk_assert(w.ops[b].done == 1 && w.ops[b].ec == 0 && w.ops[b].rc == rc, "the publish did not complete with the reason code of the acknowledgement the broker sent for it");
  vk_reach(throttled ? "second-publish-was-throttled" : "second-publish-was-queued-behind-a-write"); vk_reach("second-checked");
}
