// Harness <-> engine API (KLEE style).  Implemented three times: by the symbolic interpreter (vk/symir.py: externals),
// by the IR->C translation for CBMC (vk/rt_cbmc.c) and natively (harness/vk_native.cpp: replay of recorded inputs).
#ifndef VK_API_H
#define VK_API_H
#include <stdint.h>
#include <stddef.h>
#ifdef __cplusplus
extern "C" {
#endif
uint8_t  vk_sym_u8(void);
uint16_t vk_sym_u16(void);
uint32_t vk_sym_u32(void);
uint64_t vk_sym_u64(void);
void vk_make_symbolic(void* p, size_t n);
// free n-way choice in [0,n): forks the path (an unconstrained symbol that is switched over)
uint32_t vk_choose(uint32_t n);
void vk_assume(int c);
void vk_assert(int c, const char* msg);
// monitor log: compared between engine and native run of the same inputs (translation validation)
void vk_event(uint32_t tag, uint64_t value);
// reachability witness: every label listed for a job must be reached on some feasible path
void vk_reach(const char* label);
void vk_note(const char* text);
// fork over the feasible values of a symbolic integer (<= 64 values, else the run is inconclusive)
uint64_t vk_concretize(uint64_t v);
// [p,p+n) must lie inside one live allocation
void vk_check_range(const void* p, size_t n);
#ifdef __cplusplus
}
#endif

// callback of the (guarded) verification hook in async_mutex::unlock(): "The mutex must be in locked state" (its documented precondition)
#ifdef __cplusplus
extern "C" { __attribute__((used)) inline void boost_mqtt5_verif_mutex_unlock(bool locked) {
  vk_assert(locked, "async_mutex::unlock() was called while the mutex is not locked: the connection lock was released by someone who did not hold it");
} }
#endif
#endif
