// C08 (kernel): packet_id_allocator. (a) one allocate() / free() from an ARBITRARY valid state (inductive step over the
// representation invariant), (b) bounded histories from the initial state against a shadow set.
#include "vk_api.h"
#include <boost/mqtt5/detail/control_packet.hpp>
#include <vector>
template class std::basic_string<char>;
using boost::mqtt5::detail::packet_id_allocator;
#ifndef VK_IVALS
#define VK_IVALS 3
#endif
#ifndef VK_OPS
#define VK_OPS 6
#endif

// private state through the explicit-instantiation idiom (no change to the library)
template <auto M> struct rob { friend auto& free_ids(packet_id_allocator& a) { return a.*M; } };
auto& free_ids(packet_id_allocator& a);
template struct rob<&packet_id_allocator::_free_ids>;

// representation: intervals (start, end] of free ids, sorted by descending start, non-empty, separated by at least one used id
template <class V> static bool invariant(const V& v) {
  for (size_t i = 0; i < v.size(); i++) {
    if (!(v[i].start > v[i].end)) return false;
    if (i + 1 < v.size() && !(v[i].end > v[i + 1].start)) return false;
  }
  return true;
}
template <class V> static bool is_free(const V& v, uint16_t x) { bool f = false; for (size_t i = 0; i < v.size(); i++) if (v[i].end < x && x <= v[i].start) f = true; return f; }

extern "C" void h_pid_step(void) {
  packet_id_allocator a; auto& v = free_ids(a);
  // ---- arbitrary valid pre-state
  size_t k = vk_choose(VK_IVALS + 1); v.clear();
  for (size_t i = 0; i < k; i++) { uint16_t s = vk_sym_u16(), e = vk_sym_u16(); v.emplace_back(s, e); }
  vk_assume(invariant(v));
  uint16_t x = vk_sym_u16(); vk_assume(x != 0);                 // probe id: the free set changes by exactly the id operated on
  bool x_free_before = is_free(v, x);
  if (vk_choose(2)) {
    bool was_empty = v.empty(); uint16_t lowest = was_empty ? 0 : (uint16_t)(v.back().end + 1);
    uint16_t r = a.allocate();
    vk_assert((r == 0) == was_empty, "allocate() returns 0 exactly when no identifier is free");
    if (r) {
      vk_assert(r == lowest, "allocate() does not return the lowest free identifier");
      vk_assert(invariant(v), "representation invariant broken by allocate()");
      vk_assert(!is_free(v, r), "the allocated identifier is still free");
      vk_assert(is_free(v, x) == (x_free_before && x != r), "allocate() changed the free set by more than the allocated identifier");
      vk_reach("allocated");
    } else vk_reach("exhausted");
  } else {
    uint16_t p = vk_sym_u16(); vk_assume(p != 0 && !is_free(v, p));   // an identifier currently in use
    a.free(p);
    vk_assert(invariant(v), "representation invariant broken by free()");
    vk_assert(is_free(v, p), "the freed identifier is not free");
    vk_assert(is_free(v, x) == (x_free_before || x == p), "free() changed the free set by more than the freed identifier");
    vk_reach("freed");
  }
}
// the constructor state: invariant holds and exactly 1..65535 are free
extern "C" void h_pid_init(void) {
  packet_id_allocator a; auto& v = free_ids(a);
  uint16_t x = vk_sym_u16();
  vk_assert(invariant(v), "initial state violates the representation invariant");
  vk_assert(is_free(v, x) == (x != 0), "initially not exactly the identifiers 1..65535 are free");
  // exhaustion boundary: with only 65535 left, it is handed out, then pid_overrun (0) follows
  v.clear(); v.emplace_back(uint16_t(65535), uint16_t(65534));
  vk_assert(a.allocate() == 65535, "the last identifier is not handed out"); vk_assert(a.allocate() == 0, "0 is not reported when all identifiers are in use");
  a.free(65535); vk_assert(a.allocate() == 65535, "an identifier freed at exhaustion is not reusable");
  vk_reach("init");
}
// bounded histories from the initial state
extern "C" void h_pid_seq(void) {
  packet_id_allocator a; uint16_t held[VK_OPS]; int nh = 0;
  for (int i = 0; i < VK_OPS; i++) {
    if (nh == 0 || vk_choose(2)) {
      uint16_t r = a.allocate(); vk_assert(r != 0, "identifier 0 handed out");
      for (int j = 0; j < nh; j++) vk_assert(held[j] != r, "an identifier in use was handed out again");
      held[nh++] = r;
    } else {
      int j = (int)vk_choose(nh); a.free(held[j]); held[j] = held[--nh]; vk_reach("freed");
    }
  }
  vk_assert(invariant(free_ids(a)), "representation invariant broken along a history");
}
