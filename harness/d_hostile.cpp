// C19 (i): every decoder on every byte string of length <= VK_BYTES, held in an exact-size heap block.
// Oracles: all accesses inside the packet (engine: per-allocation bounds; native: ASan), termination, no abort/throw,
// and "accepted by the library => structurally well-formed for the reference decoder".
#include "vk_api.h"
#include "ref_mqtt.hpp"
#include <boost/mqtt5/impl/codecs/message_decoders.hpp>
#include <cstdlib>
template class std::basic_string<char>;
using namespace boost::mqtt5;
namespace dec = boost::mqtt5::decoders;
#ifndef VK_BYTES
#define VK_BYTES 6
#endif

// the reference works on whole packets: prepend the fixed header the library has already consumed
static int ref_check(uint8_t control, const uint8_t* body, size_t n, ref::packet& k) {
  uint8_t buf[VK_BYTES + 8]; ref::wr w = {buf, sizeof buf, 0, false};
  ref::frame(w, control >> 4, control & 15, body, n);
  // the decoders are lenient about an absent property length and about bytes after the property list (no field is misread)
  return ref::decode(buf, w.n, k, ref::L_OMIT_PROPS | ref::L_TRAILING | ref::L_DUP_PROPS);
}
struct buf_t { char* p; size_t n; };
static buf_t sym_body() {
  size_t n = vk_choose(VK_BYTES + 1);
  char* p = static_cast<char*>(malloc(n ? n : 1));   // exact size: one byte too far is out of bounds
  vk_make_symbolic(p, n);
  return {p, n};
}

extern "C" {
// reply packets: the packet id (2 bytes) is consumed by the caller, the decoder sees the rest
#define ACK_HARNESS(NAME, DECODE, CONTROL) \
void NAME(void) { \
  buf_t b = sym_body(); detail::byte_citer it(b.p); \
  auto r = DECODE((uint32_t)b.n, it); \
  vk_event(1, r.has_value()); \
  if (r) { \
    vk_reach("accepted"); \
    uint8_t full[VK_BYTES + 2]; full[0] = 0; full[1] = 1; for (size_t i = 0; i < b.n; i++) full[2 + i] = (uint8_t)b.p[i]; \
    ref::packet k; int rv = ref_check(CONTROL, full, b.n + 2, k); \
    vk_assert(rv == ref::OK, #DECODE " accepted a body the reference decoder rejects"); \
    vk_assert(std::get<0>(*r) == k.rc, #DECODE ": reason code differs from the reference"); \
  } else vk_reach("rejected"); \
  free(b.p); \
}
ACK_HARNESS(h_puback, dec::decode_puback, 0x40)
ACK_HARNESS(h_pubrec, dec::decode_pubrec, 0x50)
ACK_HARNESS(h_pubrel, dec::decode_pubrel, 0x62)
ACK_HARNESS(h_pubcomp, dec::decode_pubcomp, 0x70)

#define SUBACK_HARNESS(NAME, DECODE, CONTROL) \
void NAME(void) { \
  buf_t b = sym_body(); detail::byte_citer it(b.p); \
  auto r = DECODE((uint32_t)b.n, it); \
  vk_event(1, r.has_value()); \
  if (r) { \
    vk_reach("accepted"); \
    uint8_t full[VK_BYTES + 2]; full[0] = 0; full[1] = 1; for (size_t i = 0; i < b.n; i++) full[2 + i] = (uint8_t)b.p[i]; \
    ref::packet k; int rv = ref_check(CONTROL, full, b.n + 2, k); \
    vk_assert(rv == ref::OK, #DECODE " accepted a body the reference decoder rejects"); \
    vk_assert((int)std::get<1>(*r).size() == k.ncodes, #DECODE ": number of reason codes differs from the reference"); \
  } else vk_reach("rejected"); \
  free(b.p); \
}
SUBACK_HARNESS(h_suback, dec::decode_suback, 0x90)
SUBACK_HARNESS(h_unsuback, dec::decode_unsuback, 0xB0)

#define RC_HARNESS(NAME, DECODE, CONTROL) \
void NAME(void) { \
  buf_t b = sym_body(); detail::byte_citer it(b.p); \
  auto r = DECODE((uint32_t)b.n, it); \
  vk_event(1, r.has_value()); \
  if (r) { \
    vk_reach("accepted"); \
    ref::packet k; int rv = ref_check(CONTROL, (const uint8_t*)b.p, b.n, k); \
    vk_assert(rv == ref::OK, #DECODE " accepted a body the reference decoder rejects"); \
    vk_assert(std::get<0>(*r) == k.rc, #DECODE ": reason code differs from the reference"); \
  } else vk_reach("rejected"); \
  free(b.p); \
}
RC_HARNESS(h_disconnect, dec::decode_disconnect, 0xE0)
RC_HARNESS(h_auth, dec::decode_auth, 0xF0)

void h_connack(void) {
  buf_t b = sym_body(); detail::byte_citer it(b.p);
  auto r = dec::decode_connack((uint32_t)b.n, it);
  vk_event(1, r.has_value());
  if (r) {
    vk_reach("accepted");
    ref::packet k; int rv = ref_check(0x20, (const uint8_t*)b.p, b.n, k);
    // the reference additionally insists on the reserved bits of the acknowledge flags being 0 (3.2.2.1); the library masks
    if (rv != ref::OK) vk_assert(b.n >= 1 && (b.p[0] & 0xFE) != 0, "decode_connack accepted a body the reference decoder rejects");
    else vk_assert(std::get<1>(*r) == k.rc, "decode_connack: reason code differs from the reference");
  } else vk_reach("rejected");
  free(b.p);
}
void h_publish(void) {
  buf_t b = sym_body(); detail::byte_citer it(b.p);
  uint8_t flags = vk_sym_u8() & 15;
  vk_assume(((flags >> 1) & 3) != 3);              // assemble_op/read_message_op only pass QoS 0..2? (checked in C19 ii)
  auto r = dec::decode_publish(0x30 | flags, (uint32_t)b.n, it);
  vk_event(1, r.has_value());
  if (r) {
    vk_reach("accepted");
    ref::packet k; int rv = ref_check(0x30 | flags, (const uint8_t*)b.p, b.n, k);
    auto& [topic, pid, fl, props, payload] = *r;
    if (rv == ref::OK) {
      vk_assert(topic.size() == k.topic.n && payload.size() == k.payload.n, "decode_publish: topic/payload length differs from the reference");
      vk_assert(pid.has_value() == k.has_pid && (!k.has_pid || *pid == k.pid), "decode_publish: packet id differs from the reference");
    } else {
      // differences the reference is stricter about than a decoder needs to be: DUP with QoS 0, packet id 0
      bool strict_only = (((flags >> 1) & 3) == 0 && (flags & 8)) || (pid.has_value() && *pid == 0);
      vk_assert(strict_only, "decode_publish accepted a body the reference decoder rejects");
    }
  } else vk_reach("rejected");
  free(b.p);
}
// fixed header + variable byte integer
void h_fixed_header(void) {
  buf_t b = sym_body(); detail::byte_citer it(b.p);
  auto r = dec::decode_fixed_header(it, detail::byte_citer(b.p + b.n));
  vk_event(1, r.has_value());
  if (r) {
    vk_reach("accepted");
    ref::rd q = {(const uint8_t*)b.p, b.n, 1, false}; uint32_t v = q.varint();
    vk_assert(!q.bad, "decode_fixed_header accepted a truncated or over-long variable byte integer");
    vk_assert(std::get<1>(*r) == v, "variable byte integer value differs from the reference");
    vk_assert(std::get<1>(*r) <= 268435455u, "variable byte integer above 268435455");
    vk_assert((size_t)(&*it - b.p) == q.i || it == detail::byte_citer(b.p + b.n), "iterator after the fixed header");
  } else vk_reach("rejected");
  free(b.p);
}
}

// ---------------------------------------------------------------- C19 (i-b): mutations of valid packets
// A valid packet body of 25-45 bytes with many properties (strings, binary data, pairs, varints) is built by the reference
// encoder; VK_MUT of its bytes, at forked positions, are replaced by symbolic bytes, and the body may be truncated at a forked
// length. The real decoder runs on an exact-size heap block. Same oracles as above (accesses inside the packet, no abort,
// accepted => well-formed for the reference with the same reason code / structure).
#ifndef VK_MUT
#define VK_MUT 2
#endif
namespace {
struct tmpl { uint8_t b[64]; size_t n; };
static void put_props(ref::wr& w, const uint8_t* props, size_t n) { w.varint((uint32_t)n); w.bytes(props, n); }
static tmpl mutate(const ref::wr& w) {
  tmpl t; t.n = w.n; for (size_t i = 0; i < w.n; i++) t.b[i] = w.p[i];
  return t;
}
static buf_t sym_mutation(const tmpl& t) {
  // truncation: the whole body, or cut at a forked length
  size_t n = t.n; if (vk_choose(2)) { n = vk_choose((uint32_t)t.n); vk_reach("truncated"); }
  char* p = static_cast<char*>(malloc(n ? n : 1));
  for (size_t i = 0; i < n; i++) p[i] = (char)t.b[i];
  size_t lo = 0;
  for (int m = 0; m < VK_MUT && lo < n; m++) {
    size_t pos = lo + vk_choose((uint32_t)(n - lo)); p[pos] = (char)vk_sym_u8(); lo = pos + 1;      // strictly increasing positions
  }
  return {p, n};
}
// a property that may appear once only is repeated (a protocol error the library tolerates, keeping one of the values): fields are not compared then
static bool unique_props(const ref::props_t& p) { for (int i = 0; i < p.n; i++) if (p.v[i].id != 0x26 && p.v[i].id != 0x0B && p.count(p.v[i].id) > 1) return false; return true; }
static const uint8_t k_ack_props[] = {0x1F, 0, 3, 'a', 'b', 'c', 0x26, 0, 2, 'k', '1', 0, 3, 'v', 'a', 'l', 0x26, 0, 1, 'x', 0, 0};
static const uint8_t k_connack_props[] = {0x11, 0, 0, 1, 0, 0x21, 0, 10, 0x24, 1, 0x25, 1, 0x27, 0, 0, 4, 0, 0x12, 0, 3, 'c', 'i', 'd', 0x22, 0, 5, 0x1F, 0, 2, 'o', 'k',
                                          0x26, 0, 1, 'k', 0, 1, 'v', 0x28, 1, 0x29, 1, 0x2A, 1, 0x13, 0, 60, 0x1A, 0, 1, 'r', 0x1C, 0, 1, 's', 0x15, 0, 1, 'm', 0x16, 0, 2, 1, 2};
static const uint8_t k_publish_props[] = {0x01, 1, 0x02, 0, 0, 0, 9, 0x23, 0, 2, 0x08, 0, 2, 'r', 't', 0x09, 0, 2, 7, 8, 0x26, 0, 1, 'k', 0, 1, 'v', 0x0B, 0x81, 0x01, 0x03, 0, 1, 'c'};
static const uint8_t k_disc_props[] = {0x11, 0, 0, 0, 5, 0x1F, 0, 2, 'g', 'o', 0x26, 0, 1, 'k', 0, 1, 'v', 0x1C, 0, 2, 's', 'r'};
static const uint8_t k_auth_props[] = {0x15, 0, 2, 'm', 'e', 0x16, 0, 3, 1, 2, 3, 0x1F, 0, 1, 'r', 0x26, 0, 1, 'k', 0, 1, 'v'};
}
#define MUT_ACK_HARNESS(NAME, DECODE, CONTROL) \
void NAME(void) { \
  uint8_t tb[64]; ref::wr tw = {tb, sizeof tb, 0, false}; tw.u8(0x00); put_props(tw, k_ack_props, sizeof k_ack_props); \
  buf_t b = sym_mutation(mutate(tw)); detail::byte_citer it(b.p); \
  auto r = DECODE((uint32_t)b.n, it); \
  vk_event(1, r.has_value()); \
  if (r) { \
    vk_reach("accepted"); \
    uint8_t full[72]; full[0] = 0; full[1] = 1; for (size_t i = 0; i < b.n; i++) full[2 + i] = (uint8_t)b.p[i]; \
    uint8_t buf[80]; ref::wr w = {buf, sizeof buf, 0, false}; ref::frame(w, (CONTROL) >> 4, (CONTROL) & 15, full, b.n + 2); \
    ref::packet k; int rv = ref::decode(buf, w.n, k, ref::L_OMIT_PROPS | ref::L_TRAILING | ref::L_DUP_PROPS); \
    vk_assert(rv == ref::OK, #DECODE " accepted a mutated body the reference decoder rejects"); \
    vk_assert(std::get<0>(*r) == k.rc, #DECODE ": reason code differs from the reference"); \
    if (!unique_props(k.props)) { free(b.p); return; } \
    const auto& rs = std::get<1>(*r)[prop::reason_string]; const ref::prop_t* e = k.props.find(0x1F); \
    vk_assert(rs.has_value() == (e != nullptr) && (!e || ref::str_eq(e->a, rs->data(), rs->size())), #DECODE ": Reason String differs from the reference"); \
    vk_assert((int)std::get<1>(*r)[prop::user_property].size() == k.props.count(0x26), #DECODE ": number of User Properties differs from the reference"); \
  } else vk_reach("rejected"); \
  free(b.p); \
}
extern "C" {
MUT_ACK_HARNESS(h_mut_puback, dec::decode_puback, 0x40)
MUT_ACK_HARNESS(h_mut_pubcomp, dec::decode_pubcomp, 0x70)

void h_mut_suback(void) {
  uint8_t tb[64]; ref::wr tw = {tb, sizeof tb, 0, false}; put_props(tw, k_ack_props, sizeof k_ack_props); tw.u8(0); tw.u8(1); tw.u8(0x80);
  buf_t b = sym_mutation(mutate(tw)); detail::byte_citer it(b.p);
  auto r = dec::decode_suback((uint32_t)b.n, it);
  vk_event(1, r.has_value());
  if (r) {
    vk_reach("accepted");
    uint8_t full[72]; full[0] = 0; full[1] = 1; for (size_t i = 0; i < b.n; i++) full[2 + i] = (uint8_t)b.p[i];
    uint8_t buf[80]; ref::wr w = {buf, sizeof buf, 0, false}; ref::frame(w, ref::SUBACK, 0, full, b.n + 2);
    ref::packet k; int rv = ref::decode(buf, w.n, k, ref::L_OMIT_PROPS | ref::L_TRAILING | ref::L_DUP_PROPS);
    vk_assert(rv == ref::OK, "decode_suback accepted a mutated body the reference decoder rejects");
    vk_assert((int)std::get<1>(*r).size() == k.ncodes, "decode_suback: number of reason codes differs from the reference");
    for (int i = 0; i < k.ncodes && i < ref::MAXC; i++) vk_assert(std::get<1>(*r)[i] == k.codes[i], "decode_suback: reason code differs from the reference");
  } else vk_reach("rejected");
  free(b.p);
}
void h_mut_connack(void) {
  uint8_t tb[96]; ref::wr tw = {tb, sizeof tb, 0, false}; tw.u8(1); tw.u8(0);
  // two halves of the property table, so that the body stays below 64 bytes
  if (vk_choose(2)) put_props(tw, k_connack_props, 31); else put_props(tw, k_connack_props + 31, sizeof k_connack_props - 31);
  buf_t b = sym_mutation(mutate(tw)); detail::byte_citer it(b.p);
  auto r = dec::decode_connack((uint32_t)b.n, it);
  vk_event(1, r.has_value());
  if (r) {
    vk_reach("accepted");
    uint8_t buf[80]; ref::wr w = {buf, sizeof buf, 0, false}; ref::frame(w, ref::CONNACK, 0, (const uint8_t*)b.p, b.n);
    ref::packet k; int rv = ref::decode(buf, w.n, k, ref::L_OMIT_PROPS | ref::L_TRAILING | ref::L_DUP_PROPS | ref::L_RESERVED);
    vk_assert(rv == ref::OK, "decode_connack accepted a mutated body the reference decoder rejects");
    vk_assert(std::get<1>(*r) == k.rc, "decode_connack: reason code differs from the reference");
    if (!unique_props(k.props)) { free(b.p); return; }
    const auto& p = std::get<2>(*r);
    const ref::prop_t* e = k.props.find(0x12); vk_assert(p[prop::assigned_client_identifier].has_value() == (e != nullptr) && (!e || ref::str_eq(e->a, p[prop::assigned_client_identifier]->data(), p[prop::assigned_client_identifier]->size())), "decode_connack: Assigned Client Identifier differs from the reference");
    e = k.props.find(0x21); vk_assert(p[prop::receive_maximum].has_value() == (e != nullptr) && (!e || *p[prop::receive_maximum] == e->num), "decode_connack: Receive Maximum differs from the reference");
    e = k.props.find(0x27); vk_assert(p[prop::maximum_packet_size].has_value() == (e != nullptr) && (!e || *p[prop::maximum_packet_size] == e->num), "decode_connack: Maximum Packet Size differs from the reference");
    e = k.props.find(0x13); vk_assert(p[prop::server_keep_alive].has_value() == (e != nullptr) && (!e || *p[prop::server_keep_alive] == e->num), "decode_connack: Server Keep Alive differs from the reference");
    e = k.props.find(0x16); vk_assert(p[prop::authentication_data].has_value() == (e != nullptr) && (!e || ref::str_eq(e->a, p[prop::authentication_data]->data(), p[prop::authentication_data]->size())), "decode_connack: Authentication Data differs from the reference");
  } else vk_reach("rejected");
  free(b.p);
}
void h_mut_publish(void) {
  uint8_t tb[96]; ref::wr tw = {tb, sizeof tb, 0, false}; tw.lstr("to", 2); tw.u16(9); put_props(tw, k_publish_props, sizeof k_publish_props); tw.bytes("pay", 3);
  buf_t b = sym_mutation(mutate(tw)); detail::byte_citer it(b.p);
  auto r = dec::decode_publish(0x32, (uint32_t)b.n, it);
  vk_event(1, r.has_value());
  if (r) {
    vk_reach("accepted");
    uint8_t buf[80]; ref::wr w = {buf, sizeof buf, 0, false}; ref::frame(w, ref::PUBLISH, 2, (const uint8_t*)b.p, b.n);
    ref::packet k; int rv = ref::decode(buf, w.n, k, ref::L_OMIT_PROPS | ref::L_TRAILING | ref::L_DUP_PROPS | ref::L_PID0);
    auto& [topic, pid, fl, props, payload] = *r;
    vk_assert(rv == ref::OK, "decode_publish accepted a mutated body the reference decoder rejects");
    vk_assert(ref::str_eq(k.topic, topic.data(), topic.size()) && ref::str_eq(k.payload, payload.data(), payload.size()), "decode_publish: topic or payload differs from the reference");
    vk_assert(pid.has_value() && *pid == k.pid, "decode_publish: packet id differs from the reference");
    if (!unique_props(k.props)) { free(b.p); return; }
    const ref::prop_t* e = k.props.find(0x09); vk_assert(props[prop::correlation_data].has_value() == (e != nullptr) && (!e || ref::str_eq(e->a, props[prop::correlation_data]->data(), props[prop::correlation_data]->size())), "decode_publish: Correlation Data differs from the reference");
    e = k.props.find(0x08); vk_assert(props[prop::response_topic].has_value() == (e != nullptr) && (!e || ref::str_eq(e->a, props[prop::response_topic]->data(), props[prop::response_topic]->size())), "decode_publish: Response Topic differs from the reference");
    vk_assert((int)props[prop::subscription_identifier].size() == k.props.count(0x0B), "decode_publish: number of Subscription Identifiers differs from the reference");
    e = k.props.find(0x0B); if (e) vk_assert((uint32_t)props[prop::subscription_identifier][0] == e->num, "decode_publish: Subscription Identifier differs from the reference");
    e = k.props.find(0x02); vk_assert(props[prop::message_expiry_interval].has_value() == (e != nullptr) && (!e || *props[prop::message_expiry_interval] == e->num), "decode_publish: Message Expiry differs from the reference");
  } else vk_reach("rejected");
  free(b.p);
}
#define MUT_RC_HARNESS(NAME, DECODE, TYPE, PROPS) \
void NAME(void) { \
  uint8_t tb[64]; ref::wr tw = {tb, sizeof tb, 0, false}; tw.u8(TYPE == ref::AUTH ? 0x18 : 0x8B); put_props(tw, PROPS, sizeof PROPS); \
  buf_t b = sym_mutation(mutate(tw)); detail::byte_citer it(b.p); \
  auto r = DECODE((uint32_t)b.n, it); \
  vk_event(1, r.has_value()); \
  if (r) { \
    vk_reach("accepted"); \
    uint8_t buf[80]; ref::wr w = {buf, sizeof buf, 0, false}; ref::frame(w, TYPE, 0, (const uint8_t*)b.p, b.n); \
    ref::packet k; int rv = ref::decode(buf, w.n, k, ref::L_OMIT_PROPS | ref::L_TRAILING | ref::L_DUP_PROPS); \
    vk_assert(rv == ref::OK, #DECODE " accepted a mutated body the reference decoder rejects"); \
    vk_assert(std::get<0>(*r) == k.rc, #DECODE ": reason code differs from the reference"); \
    if (!unique_props(k.props)) { free(b.p); return; } \
    const auto& rs = std::get<1>(*r)[prop::reason_string]; const ref::prop_t* e = k.props.find(0x1F); \
    vk_assert(rs.has_value() == (e != nullptr) && (!e || ref::str_eq(e->a, rs->data(), rs->size())), #DECODE ": Reason String differs from the reference"); \
  } else vk_reach("rejected"); \
  free(b.p); \
}
MUT_RC_HARNESS(h_mut_disconnect, dec::decode_disconnect, ref::DISCONNECT, k_disc_props)
MUT_RC_HARNESS(h_mut_auth, dec::decode_auth, ref::AUTH, k_auth_props)
}
