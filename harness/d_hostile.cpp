// C19 (i): every decoder on every byte string of length <= VK_BYTES, held in an exact-size heap block.
// Oracles: all accesses inside the packet (engine: per-allocation bounds; native: ASan), termination, no abort/throw,
// and "accepted by the library => structurally well-formed for the reference decoder".
#include "vk_api.h"
#include "ref_mqtt.hpp"
#include <boost/mqtt5/impl/codecs/message_decoders.hpp>
#include <cstdlib>
template class std::basic_string<char>;
using namespace boost::mqtt5;
namespace dec = boost::mqtt5::decoders;
#ifndef VK_BYTES
#define VK_BYTES 6
#endif

// the reference works on whole packets: prepend the fixed header the library has already consumed
static int ref_check(uint8_t control, const uint8_t* body, size_t n, ref::packet& k) {
  uint8_t buf[VK_BYTES + 8]; ref::wr w = {buf, sizeof buf, 0, false};
  ref::frame(w, control >> 4, control & 15, body, n);
  // the decoders are lenient about an absent property length and about bytes after the property list (no field is misread)
  return ref::decode(buf, w.n, k, ref::L_OMIT_PROPS | ref::L_TRAILING | ref::L_DUP_PROPS);
}
struct buf_t { char* p; size_t n; };
static buf_t sym_body() {
  size_t n = vk_choose(VK_BYTES + 1);
  char* p = static_cast<char*>(malloc(n ? n : 1));   // exact size: one byte too far is out of bounds
  vk_make_symbolic(p, n);
  return {p, n};
}

extern "C" {
// reply packets: the packet id (2 bytes) is consumed by the caller, the decoder sees the rest
#define ACK_HARNESS(NAME, DECODE, CONTROL) \
void NAME(void) { \
  buf_t b = sym_body(); detail::byte_citer it(b.p); \
  auto r = DECODE((uint32_t)b.n, it); \
  vk_event(1, r.has_value()); \
  if (r) { \
    vk_reach("accepted"); \
    uint8_t full[VK_BYTES + 2]; full[0] = 0; full[1] = 1; for (size_t i = 0; i < b.n; i++) full[2 + i] = (uint8_t)b.p[i]; \
    ref::packet k; int rv = ref_check(CONTROL, full, b.n + 2, k); \
    vk_assert(rv == ref::OK, #DECODE " accepted a body the reference decoder rejects"); \
    vk_assert(std::get<0>(*r) == k.rc, #DECODE ": reason code differs from the reference"); \
  } else vk_reach("rejected"); \
  free(b.p); \
}
ACK_HARNESS(h_puback, dec::decode_puback, 0x40)
ACK_HARNESS(h_pubrec, dec::decode_pubrec, 0x50)
ACK_HARNESS(h_pubrel, dec::decode_pubrel, 0x62)
ACK_HARNESS(h_pubcomp, dec::decode_pubcomp, 0x70)

#define SUBACK_HARNESS(NAME, DECODE, CONTROL) \
void NAME(void) { \
  buf_t b = sym_body(); detail::byte_citer it(b.p); \
  auto r = DECODE((uint32_t)b.n, it); \
  vk_event(1, r.has_value()); \
  if (r) { \
    vk_reach("accepted"); \
    uint8_t full[VK_BYTES + 2]; full[0] = 0; full[1] = 1; for (size_t i = 0; i < b.n; i++) full[2 + i] = (uint8_t)b.p[i]; \
    ref::packet k; int rv = ref_check(CONTROL, full, b.n + 2, k); \
    vk_assert(rv == ref::OK, #DECODE " accepted a body the reference decoder rejects"); \
    vk_assert((int)std::get<1>(*r).size() == k.ncodes, #DECODE ": number of reason codes differs from the reference"); \
  } else vk_reach("rejected"); \
  free(b.p); \
}
SUBACK_HARNESS(h_suback, dec::decode_suback, 0x90)
SUBACK_HARNESS(h_unsuback, dec::decode_unsuback, 0xB0)

#define RC_HARNESS(NAME, DECODE, CONTROL) \
void NAME(void) { \
  buf_t b = sym_body(); detail::byte_citer it(b.p); \
  auto r = DECODE((uint32_t)b.n, it); \
  vk_event(1, r.has_value()); \
  if (r) { \
    vk_reach("accepted"); \
    ref::packet k; int rv = ref_check(CONTROL, (const uint8_t*)b.p, b.n, k); \
    vk_assert(rv == ref::OK, #DECODE " accepted a body the reference decoder rejects"); \
    vk_assert(std::get<0>(*r) == k.rc, #DECODE ": reason code differs from the reference"); \
  } else vk_reach("rejected"); \
  free(b.p); \
}
RC_HARNESS(h_disconnect, dec::decode_disconnect, 0xE0)
RC_HARNESS(h_auth, dec::decode_auth, 0xF0)

void h_connack(void) {
  buf_t b = sym_body(); detail::byte_citer it(b.p);
  auto r = dec::decode_connack((uint32_t)b.n, it);
  vk_event(1, r.has_value());
  if (r) {
    vk_reach("accepted");
    ref::packet k; int rv = ref_check(0x20, (const uint8_t*)b.p, b.n, k);
    // the reference additionally insists on the reserved bits of the acknowledge flags being 0 (3.2.2.1); the library masks
    if (rv != ref::OK) vk_assert(b.n >= 1 && (b.p[0] & 0xFE) != 0, "decode_connack accepted a body the reference decoder rejects");
    else vk_assert(std::get<1>(*r) == k.rc, "decode_connack: reason code differs from the reference");
  } else vk_reach("rejected");
  free(b.p);
}
void h_publish(void) {
  buf_t b = sym_body(); detail::byte_citer it(b.p);
  uint8_t flags = vk_sym_u8() & 15;
  vk_assume(((flags >> 1) & 3) != 3);              // assemble_op/read_message_op only pass QoS 0..2? (checked in C19 ii)
  auto r = dec::decode_publish(0x30 | flags, (uint32_t)b.n, it);
  vk_event(1, r.has_value());
  if (r) {
    vk_reach("accepted");
    ref::packet k; int rv = ref_check(0x30 | flags, (const uint8_t*)b.p, b.n, k);
    auto& [topic, pid, fl, props, payload] = *r;
    if (rv == ref::OK) {
      vk_assert(topic.size() == k.topic.n && payload.size() == k.payload.n, "decode_publish: topic/payload length differs from the reference");
      vk_assert(pid.has_value() == k.has_pid && (!k.has_pid || *pid == k.pid), "decode_publish: packet id differs from the reference");
    } else {
      // differences the reference is stricter about than a decoder needs to be: DUP with QoS 0, packet id 0
      bool strict_only = (((flags >> 1) & 3) == 0 && (flags & 8)) || (pid.has_value() && *pid == 0);
      vk_assert(strict_only, "decode_publish accepted a body the reference decoder rejects");
    }
  } else vk_reach("rejected");
  free(b.p);
}
// fixed header + variable byte integer
void h_fixed_header(void) {
  buf_t b = sym_body(); detail::byte_citer it(b.p);
  auto r = dec::decode_fixed_header(it, detail::byte_citer(b.p + b.n));
  vk_event(1, r.has_value());
  if (r) {
    vk_reach("accepted");
    ref::rd q = {(const uint8_t*)b.p, b.n, 1, false}; uint32_t v = q.varint();
    vk_assert(!q.bad, "decode_fixed_header accepted a truncated or over-long variable byte integer");
    vk_assert(std::get<1>(*r) == v, "variable byte integer value differs from the reference");
    vk_assert(std::get<1>(*r) <= 268435455u, "variable byte integer above 268435455");
    vk_assert((size_t)(&*it - b.p) == q.i || it == detail::byte_citer(b.p + b.n), "iterator after the fixed header");
  } else vk_reach("rejected");
  free(b.p);
}
}
