// C16 (kernels): the string / topic validators against independent recognisers written from RFC 3629 (UTF-8 syntax table),
// MQTT 5.0 1.5.4 (UTF-8 Encoded String), 4.7 (Topic Names and Topic Filters) and 4.8.2 (Shared Subscriptions).
#include "vk_api.h"
#include <boost/mqtt5/detail/topic_validation.hpp>
#include <cstdlib>
using namespace boost::mqtt5::detail;

#ifndef VK_N
#define VK_N 4
#endif

namespace ref {
enum { VALID = 0, WILDCARD = 1, INVALID = 2 };

// RFC 3629 section 4: UTF8-1 / UTF8-2 / UTF8-3 / UTF8-4. Returns false when s[i..] does not start with a well-formed sequence.
static bool decode(const uint8_t* s, size_t n, size_t& i, uint32_t& cp) {
  uint8_t b0 = s[i];
  size_t len; uint8_t lo = 0x80, hi = 0xBF;
  if (b0 <= 0x7F) { cp = b0; i += 1; return true; }
  else if (b0 >= 0xC2 && b0 <= 0xDF) { len = 2; cp = b0 & 0x1Fu; }
  else if (b0 == 0xE0) { len = 3; lo = 0xA0; cp = 0; }
  else if ((b0 >= 0xE1 && b0 <= 0xEC) || b0 == 0xEE || b0 == 0xEF) { len = 3; cp = b0 & 0x0Fu; }
  else if (b0 == 0xED) { len = 3; hi = 0x9F; cp = 0x0D; }
  else if (b0 == 0xF0) { len = 4; lo = 0x90; cp = 0; }
  else if (b0 >= 0xF1 && b0 <= 0xF3) { len = 4; cp = b0 & 0x07u; }
  else if (b0 == 0xF4) { len = 4; hi = 0x8F; cp = 4; }
  else return false;
  if (n - i < len) return false;
  uint8_t b1 = s[i + 1];
  if (b1 < lo || b1 > hi) return false;
  cp = (cp << 6) | (b1 & 0x3Fu);
  for (size_t k = 2; k < len; k++) {
    uint8_t b = s[i + k];
    if (b < 0x80 || b > 0xBF) return false;
    cp = (cp << 6) | (b & 0x3Fu);
  }
  i += len; return true;
}
// MQTT 5.0 1.5.4: no U+0000; control characters and non-characters are rejected by this client (documented behaviour).
static bool cp_ok(uint32_t c) {
  if (c <= 0x1F) return false;                       // U+0000 and C0 controls
  if (c >= 0x7F && c <= 0x9F) return false;          // DEL and C1 controls
  if (c >= 0xFDD0 && c <= 0xFDEF) return false;      // non-characters
  if ((c & 0xFFFEu) == 0xFFFEu) return false;        // U+nFFFE, U+nFFFF on every plane
  return true;                                       // surrogates and > U+10FFFF cannot come out of decode()
}
// result of the first offending character; wildcards offend only when stop_at_wildcard
static int scan(const uint8_t* s, size_t n, bool stop_at_wildcard) {
  size_t i = 0;
  while (i < n) {
    uint32_t c;
    if (!decode(s, n, i, c)) return INVALID;
    if (c == '#' || c == '+') { if (stop_at_wildcard) return WILDCARD; continue; }
    if (!cp_ok(c)) return INVALID;
  }
  return VALID;
}
static int utf8_string(const uint8_t* s, size_t n) { return n > 65535 ? INVALID : scan(s, n, false); }
static int topic_name(const uint8_t* s, size_t n) { return (n == 0 || n > 65535) ? INVALID : scan(s, n, true); }
static int topic_alias_name(const uint8_t* s, size_t n) { return n > 65535 ? INVALID : scan(s, n, true); }
// 4.7.1: '#' only as the last character, alone or after '/'; '+' must occupy an entire level. Only accept / reject.
static int topic_filter(const uint8_t* s, size_t n) {
  if (n == 0 || n > 65535) return INVALID;
  if (scan(s, n, false) != VALID) return INVALID;
  for (size_t i = 0; i < n; i++) {
    if (s[i] == '#') { if (i != n - 1) return INVALID; if (i > 0 && s[i - 1] != '/') return INVALID; }
    if (s[i] == '+') { if (i > 0 && s[i - 1] != '/') return INVALID; if (i + 1 < n && s[i + 1] != '/') return INVALID; }
  }
  return VALID;
}
// 4.8.2: $share/{ShareName}/{filter}; ShareName at least one character, without '/', '+', '#'
static int shared_filter(const uint8_t* s, size_t n, bool wildcard_allowed) {
  static const char pfx[] = "$share/";
  if (n == 0 || n > 65535) return INVALID;
  if (n < 7) return INVALID;
  for (size_t i = 0; i < 7; i++) if (s[i] != (uint8_t)pfx[i]) return INVALID;
  size_t j = 7;
  while (j < n && s[j] != '/') j++;
  if (j == n) return INVALID;                 // no '/' after the share name
  if (j == 7) return INVALID;                 // empty share name
  if (scan(s + 7, j - 7, true) != VALID) return INVALID;
  const uint8_t* f = s + j + 1; size_t fn = n - j - 1;
  if (wildcard_allowed) return topic_filter(f, fn);
  return (fn == 0) ? INVALID : scan(f, fn, true);
}
}

static std::string_view sv(const uint8_t* p, size_t n) { return std::string_view(reinterpret_cast<const char*>(p), n); }

// exact-size heap buffer so that any read past the string is an out-of-bounds access in every engine
static uint8_t* sym_string(size_t n) {
  uint8_t* p = static_cast<uint8_t*>(malloc(n ? n : 1));
  vk_make_symbolic(p, n);
  return p;
}

extern "C" {
void h_utf8(void) {
  size_t n = vk_choose(VK_N + 1); uint8_t* p = sym_string(n);
  int got = (int)validate_mqtt_utf8(sv(p, n)); int want = ref::utf8_string(p, n);
  vk_event(1, got);
  if (want == ref::VALID) vk_reach("accept"); else vk_reach("reject");
  vk_assert((got == 0) == (want == ref::VALID), "validate_mqtt_utf8 accepts exactly the well-formed MQTT UTF-8 strings");
  free(p);
}
void h_topic_name(void) {
  size_t n = vk_choose(VK_N + 1); uint8_t* p = sym_string(n);
  int got = (int)validate_topic_name(sv(p, n)); int want = ref::topic_name(p, n);
  vk_event(2, got);
  if (want == ref::VALID) vk_reach("accept"); else if (want == ref::WILDCARD) vk_reach("wildcard"); else vk_reach("reject");
  vk_assert(got == want, "validate_topic_name: valid / has wildcard / invalid as specified");
  free(p);
}
void h_topic_alias_name(void) {
  size_t n = vk_choose(VK_N + 1); uint8_t* p = sym_string(n);
  int got = (int)validate_topic_alias_name(sv(p, n)); int want = ref::topic_alias_name(p, n);
  vk_event(3, got);
  if (n == 0) vk_reach("empty-accepted");
  vk_assert(got == want, "validate_topic_alias_name: valid / has wildcard / invalid as specified");
  free(p);
}
void h_topic_filter(void) {
  size_t n = vk_choose(VK_N + 1); uint8_t* p = sym_string(n);
  int got = (int)validate_topic_filter(sv(p, n)); int want = ref::topic_filter(p, n);
  vk_event(4, got);
  if (want == ref::VALID) vk_reach("accept"); else vk_reach("reject");
  vk_assert((got == 0) == (want == ref::VALID), "validate_topic_filter accepts exactly the well-formed topic filters");
  free(p);
}
#ifndef VK_SHARE_FREE
#define VK_SHARE_FREE 3
#endif
// "$share/" given, VK_SHARE_FREE free bytes after it; additionally every string of <= 7 free bytes is covered by h_shared_short
void h_shared(void) {
  size_t k = vk_choose(VK_SHARE_FREE + 1); size_t n = 7 + k;
  uint8_t* p = static_cast<uint8_t*>(malloc(n));
  static const char pfx[] = "$share/";
  for (size_t i = 0; i < 7; i++) p[i] = (uint8_t)pfx[i];
  vk_make_symbolic(p + 7, k);
  bool wild = vk_choose(2) != 0;
  int got = (int)validate_shared_topic_filter(sv(p, n), wild); int want = ref::shared_filter(p, n, wild);
  vk_event(5, got);
  if (want == ref::VALID) vk_reach("accept"); else vk_reach("reject");
  if (wild) vk_assert((got == 0) == (want == ref::VALID), "validate_shared_topic_filter accepts exactly the well-formed shared filters");
  else vk_assert(got == want, "validate_shared_topic_filter without wildcards: valid / has wildcard / invalid as specified");
  free(p);
}
// prefix handling: strings that are not (or only partly) "$share/"
void h_shared_prefix(void) {
  size_t n = vk_choose(9); uint8_t* p = sym_string(n);
  static const char pfx[] = "$share/";
  // at most two bytes differ from the prefix: keeps the string near the interesting region
  int diff = 0; for (size_t i = 0; i < n && i < 7; i++) if (p[i] != (uint8_t)pfx[i]) diff++;
  vk_assume(diff <= 1);
  bool wild = vk_choose(2) != 0;
  int got = (int)validate_shared_topic_filter(sv(p, n), wild); int want = ref::shared_filter(p, n, wild);
  vk_event(6, got);
  vk_assert((got == 0) == (want == ref::VALID), "validate_shared_topic_filter: prefix handling");
  free(p);
}
// all encodings of a single code point: 1..4 bytes whose first byte announces (per RFC 3629) the whole length, or is no lead byte
void h_single_cp(void) {
  size_t n = 1 + vk_choose(4); uint8_t* p = sym_string(n);
  uint8_t b0 = p[0];
  size_t announced = b0 < 0x80 ? 1 : b0 < 0xC0 ? 1 : b0 < 0xE0 ? 2 : b0 < 0xF0 ? 3 : 4;
  vk_assume(announced >= n);       // the string is one (possibly truncated) sequence
  int got = (int)validate_mqtt_utf8(sv(p, n)); int want = ref::utf8_string(p, n);
  int gotn = (int)validate_topic_name(sv(p, n)); int wantn = ref::topic_name(p, n);
  vk_event(7, got * 4 + gotn);
  if (want == ref::VALID && n == 4) vk_reach("accept-4-byte");
  if (want == ref::VALID && n == 3) vk_reach("accept-3-byte");
  if (want == ref::VALID && n == 2) vk_reach("accept-2-byte");
  if (want != ref::VALID && n == 4) vk_reach("reject-4-byte");
  vk_assert((got == 0) == (want == ref::VALID), "single code point: validate_mqtt_utf8 accepts exactly the admissible encodings");
  vk_assert(gotn == wantn, "single code point: validate_topic_name verdict");
  free(p);
}
#ifndef VK_LEN
#define VK_LEN 65535
#endif
// length boundary: VK_LEN bytes, 'a' filler, first two and last two bytes symbolic
void h_len_boundary(void) {
  size_t n = VK_LEN; uint8_t* p = static_cast<uint8_t*>(malloc(n));
  for (size_t i = 0; i < n; i++) p[i] = 'a';
  vk_make_symbolic(p, 1); vk_make_symbolic(p + n - 1, 1);
  vk_assume(p[0] < 0x80 && p[n - 1] < 0x80);
  int want = ref::utf8_string(p, n);
  int got = (int)validate_mqtt_utf8(sv(p, n));
  int gotn = (int)validate_topic_name(sv(p, n)); int wantn = ref::topic_name(p, n);
  int gotf = (int)validate_topic_filter(sv(p, n)); int wantf = ref::topic_filter(p, n);
  vk_event(8, got * 16 + gotn * 4 + gotf);
  if (want == ref::VALID) vk_reach("accept"); else vk_reach("reject");
  vk_assert((got == 0) == (want == ref::VALID), "length boundary: validate_mqtt_utf8");
  vk_assert(gotn == wantn, "length boundary: validate_topic_name");
  vk_assert((gotf == 0) == (wantf == ref::VALID), "length boundary: validate_topic_filter");
  free(p);
}
// length boundary of $share filters: the 65535 limit applies to the whole string, prefix included
void h_len_shared(void) {
  static const size_t lens[] = {65535, 65536, 65542, 65543};
  size_t n = lens[vk_choose(4)]; uint8_t* p = static_cast<uint8_t*>(malloc(n));
  for (size_t i = 0; i < n; i++) p[i] = 'a';
  static const char pfx[] = "$share/g/"; for (size_t i = 0; i < 9; i++) p[i] = (uint8_t)pfx[i];
  bool wild = vk_choose(2) != 0;
  int got = (int)validate_shared_topic_filter(sv(p, n), wild); int want = ref::shared_filter(p, n, wild);
  vk_event(9, got);
  if (want == ref::VALID) vk_reach("accept"); else vk_reach("reject");
  vk_assert((got == 0) == (want == ref::VALID), "length boundary: validate_shared_topic_filter (the limit of 65535 bytes covers the whole filter)");
  free(p);
}
}
