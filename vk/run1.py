#!/usr/bin/env python3
"""debug helper: run one entry of one IR file in engine B (single process) and print what happened"""
import sys, os, time, json
sys.path.insert(0, os.path.dirname(os.path.abspath(__file__)))
sys.setrecursionlimit(20000)
import irparse, symir
ll, entry = sys.argv[1], sys.argv[2]
timeout = float(sys.argv[3]) if len(sys.argv) > 3 else 300
t0 = time.time(); m = irparse.Module(open(ll).read()); t1 = time.time()
it = symir.Interp(m)
evs = []
def on_path(st, kind, info):
    if len(evs) < 5: evs.append((kind, it.eval_events(st) if it.model_inputs(st) is not None else None, st.insns))
st = it.explore(entry, timeout=timeout, on_path=on_path)
t2 = time.time()
print('parse %.1fs explore %.1fs status=%s paths=%d pruned=%d viol=%d insns=%d sat=%d unsat=%d solver=%.1fs' % (t1 - t0, t2 - t1, st, it.paths, it.pruned, it.nviol, it.stats['insn'], it.sol.nsat, it.sol.nunsat, it.sol.time))
for e in evs: print(e)
for v in it.violations[:5]: print('VIOL', v['msg'], v.get('where'), v.get('inputs'), (v.get('events') or [])[-8:])
