#!/usr/bin/env python3
"""Check driver: regenerates the IR from /repo's working tree, runs the jobs of one property on both engines,
validates sampled paths and every counterexample against a native build of the same harness, writes the evidence
file and prints VIOLATION / KNOWN-FINDING lines.  See DESIGN.md 1.3 and 5."""
import sys, os, re, json, time, subprocess, hashlib, shutil, collections, multiprocessing, traceback, signal, resource

VERIF = os.path.dirname(os.path.dirname(os.path.abspath(__file__)))
REPO = os.environ.get('VK_REPO', '/repo')
OUT = os.environ.get('VK_OUT') or os.path.join(VERIF, 'out')
EVID = os.environ.get('VK_EVIDENCE') or os.path.join(VERIF, 'evidence')     # (development: seeds are tried on a scratch worktree with VK_REPO / VK_OUT / VK_EVIDENCE)
sys.path.insert(0, os.path.join(VERIF, 'vk'))
sys.setrecursionlimit(20000)

CLANG_IR = ['clang++-14', '-std=c++17', '-O1', '-fno-vectorize', '-fno-slp-vectorize', '-fno-unroll-loops', '-fno-exceptions',
            '-fno-rtti-data' if False else '-fno-strict-aliasing', '-DBOOST_ASIO_DISABLE_THREADS', '-DBOOST_ASIO_NO_DEPRECATED', '-DBOOST_MQTT5_VERIF',
            '-DBOOST_DISABLE_ASSERTS', '-DNDEBUG',
            '-I' + os.path.join(VERIF, 'shadow'), '-I' + os.path.join(REPO, 'include'), '-I' + os.path.join(VERIF, 'harness'), '-S', '-emit-llvm']
NATIVE = ['clang++-14', '-std=c++17', '-O0', '-gline-tables-only', '-fno-omit-frame-pointer', '-fsanitize=address,undefined', '-fno-sanitize-recover=undefined',
          '-fno-exceptions', '-DBOOST_ASIO_DISABLE_THREADS', '-DBOOST_ASIO_NO_DEPRECATED', '-DBOOST_MQTT5_VERIF', '-DBOOST_DISABLE_ASSERTS', '-DNDEBUG', '-DVK_NATIVE',
          '-I' + os.path.join(VERIF, 'shadow'), '-I' + os.path.join(REPO, 'include'), '-I' + os.path.join(VERIF, 'harness'), '-rdynamic']

def log(*a):
    print(*a, file=sys.stderr); sys.stderr.flush()

def defs_flags(defs): return ['-D%s=%s' % (k, v) for k, v in sorted(defs.items())]

def build_key(tu, defs): return re.sub(r'[^A-Za-z0-9_]', '_', os.path.basename(tu)) + '_' + hashlib.sha1(repr(sorted(defs.items())).encode()).hexdigest()[:8]

def compile_ir(tu, defs, outdir):
    ll = os.path.join(outdir, build_key(tu, defs) + '.ll')
    t0 = time.time()
    r = subprocess.run(CLANG_IR + defs_flags(defs) + [os.path.join(VERIF, tu), '-o', ll], capture_output=True, text=True)
    if r.returncode != 0: raise RuntimeError('clang failed for %s:\n%s' % (tu, r.stderr[-4000:]))
    return ll, time.time() - t0

def compile_native(tu, defs, outdir, clock=False):
    exe = os.path.join(outdir, build_key(tu, defs) + '.native')
    t0 = time.time()
    cmd = NATIVE + defs_flags(defs) + (['-DVK_STUB_CLOCK'] if clock else []) + [os.path.join(VERIF, tu), os.path.join(VERIF, 'harness/vk_native.cpp'), '-o', exe, '-ldl']
    r = subprocess.run(cmd, capture_output=True, text=True)
    if r.returncode != 0: raise RuntimeError('native build failed for %s:\n%s' % (tu, r.stderr[-4000:]))
    return exe, time.time() - t0

# ---------------------------------------------------------------- engine B workers
_MODS = {}      # ll path -> Module (parsed in the parent before the pool forks)
_INTERPS = {}

def _interp(ll):
    import symir
    it = _INTERPS.get(ll)
    if it is None:
        it = symir.Interp(_MODS[ll]); _INTERPS[ll] = it
    if not it.decoded and os.path.exists(ll + '.dec'):
        # decoded instruction tables written by the worker that explored the root of the tree (saves every other worker the decoding)
        try:
            import pickle
            for nm, (dec, cnt) in pickle.load(open(ll + '.dec', 'rb')).items(): it.decoded[nm] = (it.m.funcs[nm], dec, cnt)
            it.preloaded = True
        except Exception: it.decoded = {}
    return it

def worker_task(task):
    """explore the subtree below a decision prefix for at most `slice_s` seconds; hand back what is left"""
    import symir, z3
    ll, entry, prefix, slice_s, sample_quota, max_insns, grace = task
    try:
        it = _interp(ll)
        it.max_insns = max_insns; it.path_grace = grace
        it.stats = collections.Counter()
        q0 = (it.sol.nsat, it.sol.nunsat, it.sol.time)
        samples = []; reached = collections.Counter(); ok_paths = [0]
        def on_path(st, kind, info):
            for tag, v in st.events:
                if type(tag) is str and tag == 'reach': reached[v] += 1
            if kind == 'ok':
                ok_paths[0] += 1
                if len(samples) < sample_quota:
                    inp = it.model_inputs(st)
                    if inp is not None:
                        samples.append({'inputs': inp, 'events': it.eval_events(st), 'decisions': len(st.decisions), 'insns': st.insns})
        t0 = time.time()
        status = it.explore(entry, timeout=slice_s, prefix=prefix, on_path=on_path)
        left = []
        if status != 'done':
            for st in it.pending:
                left.append(st.decisions + (list(reversed(st.forced)) if st.forced else []))
        it.pending = []
        if not prefix and not os.path.exists(ll + '.dec') and not getattr(it, 'preloaded', False):
            try:
                import pickle
                tmp = ll + '.dec.%d' % os.getpid(); pickle.dump({nm: (d[1], d[2]) for nm, d in it.decoded.items()}, open(tmp, 'wb'), protocol=4); os.replace(tmp, ll + '.dec')
            except Exception: pass
        return {'status': status, 'paths': it.paths, 'pruned': it.pruned, 'left': left, 'violations': it.violations, 'nviol': it.nviol,
                'viol_count': dict(it.viol_count), 'incomplete': it.incomplete[:3], 'preempted': it.preempted, 'samples': samples, 'reached': dict(reached), 'stats': dict(it.stats),
                'sat': it.sol.nsat - q0[0], 'unsat': it.sol.nunsat - q0[1], 'solver_s': it.sol.time - q0[2], 'wall': time.time() - t0,
                'called': sorted(it.called)}
    except symir.Inconclusive as e:
        return {'status': 'inconclusive', 'error': str(e)}
    except Exception as e:
        return {'status': 'error', 'error': '%s: %s\n%s' % (type(e).__name__, e, traceback.format_exc()[-3000:])}

def _worker_main(conn):
    signal.signal(signal.SIGINT, signal.SIG_IGN)
    try: resource.setrlimit(resource.RLIMIT_AS, (12 << 30, 12 << 30))
    except Exception: pass
    while True:
        try: task = conn.recv()
        except (EOFError, OSError): return
        if task is None: return
        try: res = worker_task(task)
        except BaseException as e: res = {'status': 'error', 'error': 'worker: %s: %s' % (type(e).__name__, e)}
        try: conn.send(res)
        except Exception: return

class Scheduler:
    """runs engine-B jobs on worker processes; a job is a tree of decision prefixes explored in time slices.
    Own process management (Process + Pipe): a worker that dies or overruns is killed and reported, never waited for."""
    def __init__(s, nproc):
        s.nproc = nproc; s.workers = []
    def start(s):
        ctx = multiprocessing.get_context('fork')
        for _ in range(s.nproc):
            a, b = ctx.Pipe()
            p = ctx.Process(target=_worker_main, args=(b,), daemon=True); p.start(); b.close()
            s.workers.append({'p': p, 'c': a, 'busy': None, 't0': 0.0})
    def stop(s):
        for w in s.workers:
            try: w['p'].kill()
            except Exception: pass
        for w in s.workers:
            try: w['p'].join(2)
            except Exception: pass
            try: w['c'].close()
            except Exception: pass
        s.workers = []
    def run_jobs(s, jobs, deadline):
        """jobs: list of dict(ll, entry, samples, max_insns). returns list of aggregated results"""
        from multiprocessing.connection import wait
        res = []
        for j in jobs:
            res.append({'status': 'done', 'paths': 0, 'pruned': 0, 'violations': [], 'nviol': 0, 'viol_count': collections.Counter(), 'samples': [], 'reached': collections.Counter(),
                        'stats': collections.Counter(), 'incomplete': [], 'sat': 0, 'unsat': 0, 'solver_s': 0.0, 'cpu_s': 0.0, 'called': set(), 'tasks': 0, 'error': None,
                        't0': time.time(), 'wall': None})
        queue = collections.deque(); preempt = {}
        for i, j in enumerate(jobs): queue.append((i, [], 2.0))
        def submit():
            for w in s.workers:
                if w['busy'] is not None or not queue: continue
                i, prefix, sl = queue.popleft(); j = jobs[i]
                if res[i]['status'] in ('error', 'inconclusive'): continue
                quota = max(0, j.get('samples', 8) - len(res[i]['samples']))
                grace = 150.0 * (4 ** min(preempt.get((i, tuple(prefix)), 0), 2))
                try: w['c'].send((j['ll'], j['entry'], prefix, sl, quota, j.get('max_insns', 3_000_000), grace))
                except Exception: continue
                w['busy'] = (i, sl); w['t0'] = time.time()
        def absorb(i, r):
            R = res[i]; R['tasks'] += 1
            if r['status'] in ('error', 'inconclusive'):
                R['status'] = r['status']; R['error'] = r['error']; return
            R['paths'] += r['paths']; R['pruned'] += r['pruned']; R['nviol'] += r['nviol']; R['incomplete'] += r['incomplete'][:2]
            for k2, v in r['viol_count'].items(): R['viol_count'][k2] += v
            for v in r['violations']:
                if sum(1 for x in R['violations'] if x.get('key') == v.get('key')) < 2 and len(R['violations']) < 12: R['violations'].append(v)
            R['samples'] += r['samples'][:max(0, jobs[i].get('samples', 8) - len(R['samples']))]
            R['reached'].update(r['reached']); R['stats'].update(r['stats'])
            R['sat'] += r['sat']; R['unsat'] += r['unsat']; R['solver_s'] += r['solver_s']; R['cpu_s'] += r['wall']; R['called'].update(r['called'])
            nleft = len(r['left'])
            if r.get('preempted') and r['left']:
                # the last prefix is a path that outlived slice + grace: it gets a longer grace next time, three strikes and the job is inconclusive
                k = (i, tuple(r['left'][-1])); preempt[k] = preempt.get(k, 0) + 1
                if preempt[k] > 3: R['status'] = 'inconclusive'; R['error'] = 'one path does not finish within %d s' % int(150 * 16)
            for p in r['left']: queue.append((i, p, 8.0 if nleft < 4 * s.nproc else 20.0))
        submit()
        while any(w['busy'] is not None for w in s.workers) or queue:
            now = time.time()
            if now > deadline:
                for w in s.workers:
                    if w['busy'] is not None: res[w['busy'][0]]['status'] = 'timeout'
                for (i, p, sl) in queue: res[i]['status'] = 'timeout'
                s.stop(); s.start(); break
            busy = [w for w in s.workers if w['busy'] is not None]
            ready = wait([w['c'] for w in busy], timeout=0.5) if busy else []
            for w in busy:
                if w['c'] in ready:
                    i, sl = w['busy']; w['busy'] = None
                    try: r = w['c'].recv()
                    except (EOFError, OSError): r = {'status': 'error', 'error': 'worker process died (exit code %s)' % w['p'].exitcode}
                    absorb(i, r)
                elif not w['p'].is_alive():
                    i, sl = w['busy']; w['busy'] = None; absorb(i, {'status': 'error', 'error': 'worker process died (exit code %s)' % w['p'].exitcode})
                elif now - w['t0'] > w['busy'][1] + 900:
                    # a slice overran by minutes: one path does not terminate in reasonable time
                    i, sl = w['busy']; w['busy'] = None
                    try: w['p'].kill()
                    except Exception: pass
                    absorb(i, {'status': 'inconclusive', 'error': 'a worker overran its time slice by 900 s (one path too long)'})
            # replace dead workers
            for k, w in enumerate(s.workers):
                if not w['p'].is_alive() and w['busy'] is None:
                    ctx = multiprocessing.get_context('fork'); a, b = ctx.Pipe()
                    p = ctx.Process(target=_worker_main, args=(b,), daemon=True); p.start(); b.close()
                    try: w['c'].close()
                    except Exception: pass
                    s.workers[k] = {'p': p, 'c': a, 'busy': None, 't0': 0.0}
            submit()
            for i, R in enumerate(res):
                if R['wall'] is None and not any(ii == i for (ii, _, _) in queue) and not any(w['busy'] is not None and w['busy'][0] == i for w in s.workers):
                    R['wall'] = time.time() - R['t0']
        for R in res:
            if R['wall'] is None: R['wall'] = time.time() - R['t0']
        return res

# ---------------------------------------------------------------- native replay
def write_inputs(path, inputs):
    with open(path, 'w') as f:
        for kind, v, w in inputs:
            if kind == 'choice': f.write('c %d\n' % v)
            else: f.write('s %d %d\n' % (w, v))

def run_native(exe, entry, inputs_file, timeout=60):
    env = dict(os.environ, VK_INPUTS=inputs_file, ASAN_OPTIONS='detect_leaks=0:abort_on_error=0:exitcode=86:allocator_may_return_null=1', UBSAN_OPTIONS='print_stacktrace=1:exitcode=87')
    try:
        r = subprocess.run([exe, entry], capture_output=True, text=True, env=env, timeout=timeout, errors='replace')
    except subprocess.TimeoutExpired:
        return {'rc': 'timeout', 'events': [], 'assert': None, 'stderr': ''}
    ev = []; a = None; done = False; assumed = False
    for ln in r.stdout.split('\n'):
        if ln.startswith('E '):
            _, t, v = ln.split(' ', 2); ev.append([int(t), int(v)])
        elif ln.startswith('R '): ev.append(['reach', ln[2:]])
        elif ln.startswith('N '): ev.append(['note', ln[2:]])
        elif ln.startswith('A '): a = ln[2:]
        elif ln == 'D': done = True
        elif ln == 'U': assumed = True
    return {'rc': r.returncode, 'events': ev, 'assert': a, 'done': done, 'assumed': assumed, 'stderr': r.stderr[-3000:]}

def compile_plain(tu, defs, outdir, clock=False):
    """uninstrumented -no-pie build for gdb watchpoint confirmation of accesses ASan cannot see (COMDAT globals have no redzones)"""
    exe = os.path.join(outdir, build_key(tu, defs) + '.plain')
    if os.path.exists(exe): return exe
    cmd = [x for x in NATIVE if not x.startswith('-fsanitize') and not x.startswith('-fno-sanitize')] + ['-no-pie'] + defs_flags(defs) + (['-DVK_STUB_CLOCK'] if clock else []) + \
          [os.path.join(VERIF, tu), os.path.join(VERIF, 'harness/vk_native.cpp'), '-o', exe, '-ldl']
    r = subprocess.run(cmd, capture_output=True, text=True)
    if r.returncode != 0: raise RuntimeError('g++ (plain) failed for %s:\n%s' % (tu, r.stderr[-3000:]))
    return exe

def gdb_confirm_global(exe, entry, inputs_file, obj):
    """hardware access watchpoint on the first byte outside a global object: did the real code touch it?"""
    kind, name, size, off, n = obj
    sym = name.lstrip('@').strip('"')
    r = subprocess.run(['nm', exe], capture_output=True, text=True)
    addr = None
    for ln in r.stdout.split('\n'):
        f = ln.split()
        if len(f) == 3 and f[2] == sym: addr = int(f[0], 16)
    if addr is None: return False, 'symbol not found: ' + sym
    woff = off if off < 0 else max(off, size)
    env = dict(os.environ, VK_INPUTS=inputs_file)
    try:
        g = subprocess.run(['gdb', '-batch', '-ex', 'break main', '-ex', 'run', '-ex', 'awatch *(unsigned char*)(%d)' % (addr + woff), '-ex', 'continue', '-ex', 'bt 6', '--args', exe, entry],
                           capture_output=True, text=True, env=env, timeout=120)
    except subprocess.TimeoutExpired: return False, 'gdb timeout'
    hit = re.search(r'Hardware (read|access \(read/write\)) watchpoint 2', g.stdout.split('continue')[-1]) is not None and 'Value' in g.stdout
    return hit, g.stdout[-1500:]

def same_events(a, b):
    return [list(x) for x in a] == [list(x) for x in b]

# ---------------------------------------------------------------- engine A (IR -> C -> CBMC)
def run_cbmc(ll, job, outdir):
    import irparse, ir2c
    t0 = time.time()
    m = _MODS[ll]
    roots = ['@' + job['entry']]
    E = ir2c.Emit(m, roots)
    csrc = E.run()
    if getattr(E, 'failed', None):
        return {'status': 'error', 'error': 'untranslated functions: %r' % E.failed}
    cfile = os.path.join(outdir, job['name'] + '.c')
    open(cfile, 'w').write(csrc)
    rt = os.path.join(VERIF, 'vk/rt_cbmc.c')
    cmd = ['cbmc', cfile, rt, '--function', 'vk_cbmc_main_' + job['entry'], '--no-malloc-may-fail', '--drop-unused-functions', '--unwinding-assertions',
           '--unwind', str(job.get('unwind', 8)), '--object-bits', '10', '--json-ui'] + job.get('cbmc_flags', [])
    # the entry wrapper runs global ctors first
    wrap = os.path.join(outdir, job['name'] + '_main.c')
    open(wrap, 'w').write('void vk_global_ctors(void); void %s(void);\nvoid vk_cbmc_main_%s(void) { vk_global_ctors(); %s(); }\n' % (job['entry'], job['entry'], job['entry']))
    cmd.insert(2, wrap)
    try:
        r = subprocess.run(cmd, capture_output=True, text=True, timeout=job.get('timeout', 600))
    except subprocess.TimeoutExpired:
        return {'status': 'timeout', 'wall': time.time() - t0}
    try: out = json.loads(r.stdout)
    except Exception:
        return {'status': 'error', 'error': 'cbmc output not parsable: ' + r.stdout[-1500:] + r.stderr[-1500:]}
    props = []; verdict = None; msgs = []
    for item in out:
        if 'result' in item: props = item['result']
        if 'cProverStatus' in item: verdict = item['cProverStatus']
        if item.get('messageType') == 'ERROR': msgs.append(item.get('messageText', ''))
    fails = [p for p in props if p.get('status') == 'FAILURE']
    res = {'status': 'done' if verdict in ('success', 'failure') else 'error', 'verdict': verdict, 'nprops': len(props), 'failures': [],
           'wall': time.time() - t0, 'functions': sorted(E.fq_seen), 'error': '; '.join(msgs) if verdict not in ('success', 'failure') else None, 'cmd': ' '.join(cmd)}
    for p in fails:
        f = {'property': p.get('property'), 'description': p.get('description'), 'inputs': []}
        # nondet inputs from the trace, in order
        for st in p.get('trace', []):
            if st.get('stepType') == 'function-return' and st.get('function', {}).get('displayName', '').startswith('vk_nondet'):
                pass
            if st.get('stepType') == 'assignment' and st.get('lhs', '').startswith('vk_in_'):
                v = st.get('value', {})
                f['inputs'].append((st['lhs'], int(v.get('data', '0')) if str(v.get('data', '')).lstrip('-').isdigit() else v.get('data'), v.get('width')))
        res['failures'].append(f)
    return res

# ---------------------------------------------------------------- known findings
def load_known():
    p = os.path.join(VERIF, 'known-findings.txt'); out = []
    if not os.path.exists(p): return out
    for ln in open(p):
        ln = ln.strip()
        if not ln or ln.startswith('#'): continue
        m = re.match(r'^known: property=(\S+) job=(\S+) assert="([^"]*)"(?: where="([^"]*)")?\s*(?:::\s*(.*))?$', ln)
        if m: out.append({'property': m.group(1), 'job': m.group(2), 'assert': m.group(3), 'where': m.group(4), 'text': m.group(5) or ''})
    return out

def match_known(known, pid, job, msg, where):
    for k in known:
        if k['property'] == pid and k['job'] == job and k['assert'] in msg:
            if k['where'] and not any(k['where'] in w for w in (where or [])): continue
            return k
    return None

def demangle(names):
    try:
        r = subprocess.run(['c++filt'], input='\n'.join(n.lstrip('@').strip('"') for n in names), capture_output=True, text=True)
        return [x if len(x) <= 160 else x[:80] + ' ... ' + x[-70:] for x in r.stdout.split('\n')[:len(names)]]
    except Exception: return list(names)

# ---------------------------------------------------------------- main entry: check one property
def check(pid, tier, spec, seed=0, replay=None):
    t_start = time.time()
    outdir = os.path.join(OUT, pid); shutil.rmtree(outdir, ignore_errors=True); os.makedirs(outdir, exist_ok=True)
    # quick tier: every job at its quick bound; all must be exhausted.
    # thorough tier = iterative deepening: first the quick bounds again (must be exhausted, as above), then every job at its thorough
    # bound ("<name>@deep", and the thorough-only jobs) within DEEP_BUDGET; a deep job that is not exhausted in time is reported as
    # such - the claim then stays at the bound that was exhausted - and any violation met on the way counts.
    jobs = []
    def mk(j0, which, deep, rename):
        j = dict(j0); d = dict(j.get('defs', {})); d.update(j.get('defs_' + which, {})); j['defs'] = d
        j['budget'] = j.get('budget_' + which, j.get('budget', 600 if which == 'quick' else DEEP_BUDGET))
        j['base'] = j0['name']; j['deep'] = deep
        if rename: j['name'] = j0['name'] + '@deep'
        return j
    for j0 in spec['jobs']:
        tiers = j0.get('tiers'); in_quick = not tiers or 'quick' in tiers; in_thor = not tiers or 'thorough' in tiers
        if tier == 'quick':
            if in_quick: jobs.append(mk(j0, 'quick', False, False))
        else:
            if in_quick: jobs.append(mk(j0, 'quick', False, False))
            differs = dict(j0.get('defs_quick', {})) != dict(j0.get('defs_thorough', {}))
            if in_thor and (not in_quick or differs): jobs.append(mk(j0, 'thorough', True, in_quick))
    nproc = int(os.environ.get('VK_NPROC', '16'))
    # ---- build (parallel)
    import concurrent.futures as cf
    builds = {}; natives = {}
    for j in jobs:
        builds[(j['tu'], tuple(sorted(j['defs'].items())))] = None
        if j.get('native', True): natives[(j['tu'], tuple(sorted(j['defs'].items())), bool(j.get('clock')))] = None
    build_s = 0.0
    with cf.ThreadPoolExecutor(max_workers=nproc) as ex:
        futs = {ex.submit(compile_ir, k[0], dict(k[1]), outdir): ('ir', k) for k in builds}
        nf = {ex.submit(compile_native, k[0], dict(k[1]), outdir, k[2]): ('nat', k) for k in natives}
        errors = []
        for f in cf.as_completed(list(futs)):
            kind, k = futs[f]
            try: builds[k], dt = f.result(); build_s += dt
            except Exception as e: errors.append(str(e))
        if errors:
            for f in nf: f.cancel()
            return finish(pid, tier, seed, spec, [], t_start, fatal='build failed: ' + errors[0])
        # parse IR in the parent, then fork the pool
        import irparse
        t0 = time.time()
        for k, ll in builds.items():
            _MODS[ll] = irparse.Module(open(ll).read())
        parse_s = time.time() - t0
        sched = Scheduler(nproc); sched.start()
        results = {}
        try:
            bjobs = [j for j in jobs if j.get('engine', 'B') == 'B']
            ajobs = [j for j in jobs if j.get('engine', 'B') == 'A']
            afuts = {ex.submit(run_cbmc, builds[(j['tu'], tuple(sorted(j['defs'].items())))], j, outdir): j for j in ajobs}
            for phase in (False, True):
                pj = [j for j in bjobs if j['deep'] == phase]
                if not pj: continue
                deadline = time.time() + max(j['budget'] for j in pj)
                bres = sched.run_jobs([{'ll': builds[(j['tu'], tuple(sorted(j['defs'].items())))], 'entry': j['entry'], 'samples': j.get('samples', 12 if tier == 'quick' else 40),
                                        'max_insns': j.get('max_insns', 3_000_000)} for j in pj], deadline)
                for j, r in zip(pj, bres): results[j['name']] = r
            for f in cf.as_completed(list(afuts)):
                j = afuts[f]
                try: results[j['name']] = f.result()
                except Exception as e: results[j['name']] = {'status': 'error', 'error': '%s\n%s' % (e, traceback.format_exc()[-2000:])}
        finally:
            sched.stop()
        for f in cf.as_completed(list(nf)):
            kind, k = nf[f]
            try: natives[k], dt = f.result(); build_s += dt
            except Exception as e: errors.append(str(e))
        if errors:
            return finish(pid, tier, seed, spec, [], t_start, fatal='native build failed: ' + errors[0])
    # ---- post-process every job
    known = load_known()
    reports = []
    for j in jobs:
        r = results[j['name']]
        rep = {'job': j['name'], 'engine': j.get('engine', 'B'), 'entry': j['entry'], 'tu': j['tu'], 'bounds': j['defs'], 'status': r['status'], 'error': r.get('error'),
               'violations': [], 'known': [], 'validated': 0, 'validation_mismatch': [], 'missing_reach': [], 'twin': j.get('twin'), 'deep': bool(j.get('deep')), 'base': j.get('base', j['name'])}
        key = (j['tu'], tuple(sorted(j['defs'].items())), bool(j.get('clock')))
        exe = natives.get(key)
        if rep['engine'] == 'B' and r['status'] in ('done', 'timeout'):
            rep['incomplete'] = r['incomplete'][:3]
            rep.update({'paths': r['paths'], 'pruned': r['pruned'], 'sat': r['sat'], 'unsat': r['unsat'], 'solver_s': round(r['solver_s'], 2), 'cpu_s': round(r['cpu_s'], 2),
                        'wall_s': round(r['wall'], 2), 'insns': r['stats'].get('insn', 0), 'forks': r['stats'].get('forks', 0), 'tasks': r['tasks'],
                        'asserts_symbolic': r['stats'].get('asserts_symbolic', 0), 'asserts_concrete': r['stats'].get('asserts_concrete', 0), 'asserts_decided_by_simplifier': r['stats'].get('asserts_trivial', 0),
                        'reached': dict(r['reached']), 'functions': len(r['called']), 'function_names': demangle(sorted(r['called']))})
            for lbl in j.get('reach', []):
                if not r['reached'].get(lbl): rep['missing_reach'].append(lbl)
            # translation validation: sampled paths replayed natively
            if exe:
                for n, smp in enumerate(r['samples']):
                    f = os.path.join(outdir, '%s-sample-%d.in' % (j['name'], n)); write_inputs(f, smp['inputs'])
                    nr = run_native(exe, j['entry'], f)
                    if nr['rc'] == 0 and nr.get('done') and same_events(nr['events'], smp['events']): rep['validated'] += 1
                    else: rep['validation_mismatch'].append({'sample': n, 'inputs_file': f, 'engine_events': smp['events'][-12:], 'native_events': nr['events'][-12:], 'native_rc': nr['rc'], 'native_assert': nr['assert'], 'stderr': nr['stderr'][-800:]})
            rep['samples'] = [{'inputs': [v for (_, v, _) in smp['inputs']][:40], 'events': smp['events'][:24], 'decisions': smp['decisions'], 'insns': smp['insns']} for smp in r['samples'][:3]]
            # counterexamples
            for n, v in enumerate(r['violations']):
                vr = {'msg': v['msg'], 'kind': v['kind'], 'where': demangle(v.get('where', [])), 'count': r['viol_count'].get(v.get('key'), 1), 'reproduced': None}
                cex = os.path.join(outdir, 'cex-%s-%d.json' % (j['name'], n))
                if v.get('inputs') is None:
                    vr['reproduced'] = False; vr['note'] = 'no model'
                elif exe:
                    f = os.path.join(outdir, 'cex-%s-%d.in' % (j['name'], n)); write_inputs(f, v['inputs'])
                    nr = run_native(exe, j['entry'], f)
                    if v['kind'] == 'assert': ok = nr['rc'] == 3 and nr['assert'] is not None and ('vk_assert failed: ' + nr['assert']) == v['msg']
                    elif v['kind'] in ('memory', 'arith'): ok = nr['rc'] in (86, 87, -11, -6, -8, 1) and ('Sanitizer' in nr['stderr'] or 'runtime error' in nr['stderr'] or nr['rc'] in (-11, -8))
                    elif v['kind'] == 'abort': ok = nr['rc'] in (-6, 134, 86, 87)
                    elif v['kind'] == 'hang': ok = nr['rc'] == 'timeout'
                    else: ok = False
                    vr['reproduced'] = bool(ok); vr['native'] = {'rc': nr['rc'], 'assert': nr['assert'], 'stderr_tail': nr['stderr'][-1200:]}
                    if not ok and v['kind'] == 'memory' and v.get('obj') and v['obj'][0] == 'global':
                        try:
                            plain = compile_plain(j['tu'], j['defs'], outdir, bool(j.get('clock')))
                            hit, txt = gdb_confirm_global(plain, j['entry'], f, v['obj'])
                        except Exception as e: hit, txt = False, str(e)
                        vr['reproduced'] = bool(hit); vr['native']['gdb_watchpoint'] = txt
                        vr['note'] = 'ASan places no redzone after this COMDAT global; confirmed with a hardware watchpoint on the first byte outside the object' if hit else 'not confirmed'
                    vr['obj'] = v.get('obj')
                    vr['inputs_file'] = f
                json.dump({'property': pid, 'job': j['name'], 'entry': j['entry'], 'tu': j['tu'], 'defs': j['defs'], 'violation': vr, 'inputs': v.get('inputs'), 'events': v.get('events')}, open(cex, 'w'), indent=1, default=str)
                vr['replay'] = cex
                k = match_known(known, pid, j['base'], v['msg'], vr['where'])
                if k: vr['known'] = k['text'] or k['assert']; rep['known'].append(vr)
                else: rep['violations'].append(vr)
        elif rep['engine'] == 'A' and r['status'] == 'done':
            rep.update({'verdict': r['verdict'], 'nprops': r['nprops'], 'wall_s': round(r['wall'], 2), 'functions': len(r['functions']), 'function_names': demangle(r['functions']), 'cmd': r['cmd']})
            for n, f in enumerate(r['failures']):
                vr = {'msg': 'cbmc: %s (%s)' % (f['description'], f['property']), 'kind': 'cbmc', 'inputs': f['inputs'][:64], 'reproduced': None, 'where': []}
                cex = os.path.join(outdir, 'cex-%s-%d.json' % (j['name'], n)); json.dump({'property': pid, 'job': j['name'], 'violation': vr}, open(cex, 'w'), indent=1, default=str)
                vr['replay'] = cex
                k = match_known(known, pid, j['base'], vr['msg'], [])
                if k: vr['known'] = k['text']; rep['known'].append(vr)
                else: rep['violations'].append(vr)
        reports.append(rep)
    return finish(pid, tier, seed, spec, reports, t_start, build_s=build_s)

def finish(pid, tier, seed, spec, reports, t_start, fatal=None, build_s=0.0):
    wall = time.time() - t_start
    viol = []; known = []; broken = []; notes = []
    if fatal: broken.append(fatal)
    for rep in reports:
        if rep.get('incomplete') and not rep['violations'] and not rep['known']: broken.append('%s: exploration incomplete: %s' % (rep['job'], rep['incomplete'][0]))
        if rep.get('deep') and rep['status'] == 'timeout':
            # deepening step not exhausted within its budget: reported, not claimed; what was explored still counts for violations
            notes.append('%s: bound %s not exhausted within the budget (%s paths explored, no verdict claimed at this bound)' % (rep['job'], json.dumps(rep['bounds']), rep.get('paths', '-')))
            rep['status'] = 'not-exhausted'; rep['missing_reach'] = []
        elif rep['status'] != 'done': broken.append('%s: %s %s' % (rep['job'], rep['status'], rep.get('error') or ''))
        if rep['missing_reach']: broken.append('%s: vacuity: labels never reached: %s' % (rep['job'], rep['missing_reach']))
        if rep['validation_mismatch']: broken.append('%s: engine/native mismatch on %d sampled paths (first: %s)' % (rep['job'], len(rep['validation_mismatch']), json.dumps(rep['validation_mismatch'][0])[:1500]))
        for v in rep['violations']:
            if v['kind'] == 'cbmc':
                # engine A counterexamples are reported through the twin engine-B job (same harness), which replays natively
                tw = [r for r in reports if r['job'] == rep.get('twin')]
                if tw and (tw[0]['violations'] or tw[0]['known']): continue
                broken.append('%s: engines disagree: CBMC fails "%s" but the symir twin %s found nothing' % (rep['job'], v['msg'], rep.get('twin')))
            elif v['reproduced']: viol.append((rep, v))
            else: broken.append('%s: counterexample did not reproduce natively (encoding or stub error): %s [%s]' % (rep['job'], v['msg'], v.get('replay')))
        for v in rep['known']: known.append((rep, v))
    paths = sum(r.get('paths', 0) for r in reports); queries = sum(r.get('sat', 0) + r.get('unsat', 0) for r in reports) + sum(r.get('nprops', 0) for r in reports)
    samples = []
    for r in reports:
        for smp in r.get('samples', [])[:2]: samples.append({'job': r['job'], **smp})
        if r['engine'] == 'A': samples.append({'job': r['job'], 'cbmc_verdict': r.get('verdict'), 'cbmc_properties': r.get('nprops')})
    ev = {'property_id': pid, 'tier': tier, 'seed': seed, 'level': 'model_checking',
          'coverage': {'states': max(paths, 1) if reports else 1, 'transitions': max(queries, 1) if reports else 1,
                       'traces_validated_against_impl': sum(r.get('validated', 0) for r in reports),
                       'samples': samples or [{'note': 'no job completed'}],
                       'exhaustive': bool(spec.get('exhaustive')) and not broken and not fatal,
                       'explanation': 'states = feasible paths explored symbolically (engine B) ; transitions = solver queries discharged (z3 sat+unsat) plus CBMC properties decided (engine A); '
                                      'traces_validated_against_impl = explored paths whose solver model was replayed on the native ASan/UBSan build of the same harness with an identical monitor log',
                       'bounds': {r['job']: r['bounds'] for r in reports},
                       'solver_seconds': round(sum(r.get('solver_s', 0) for r in reports), 2),
                       'instructions_interpreted': sum(r.get('insns', 0) for r in reports),
                       'jobs': [{k: v for k, v in r.items() if k not in ('function_names', 'samples')} for r in reports],
                       'functions_encoded': sorted(set(n for r in reports for n in r.get('function_names', []) if 'mqtt5' in n))[:400],
                       'functions_encoded_total': len(set(n for r in reports for n in r.get('function_names', []))),
                       'build_seconds': round(build_s, 1), 'broken': broken, 'deepening_not_exhausted': notes},
          'assumptions': spec.get('assumptions', []) + COMMON_ASSUMPTIONS,
          'wall_s': round(wall, 2), 'violations': len(viol)}
    os.makedirs(EVID, exist_ok=True)
    json.dump(ev, open(os.path.join(EVID, pid + '.json'), 'w'), indent=1, default=str)
    for rep in reports:
        log('[%s] %-28s %-5s eng=%s paths=%s queries=%s solver=%ss wall=%ss validated=%s viol=%d known=%d %s' % (pid, rep['job'], rep['status'], rep['engine'], rep.get('paths', '-'),
            rep.get('sat', 0) + rep.get('unsat', 0) if rep['engine'] == 'B' else rep.get('nprops'), rep.get('solver_s', '-'), rep.get('wall_s', '-'), rep.get('validated', '-'),
            len(rep['violations']), len(rep['known']), rep.get('error') or ''))
    seen_known = set()
    for rep, v in known:
        if (rep['job'], v.get('known')) in seen_known: continue
        seen_known.add((rep['job'], v.get('known')))
        print('KNOWN-FINDING: property=%s %s [%s: %s]' % (pid, v.get('known'), rep['job'], v['msg']))
    for rep, v in viol:
        print('VIOLATION property=%s replay=%s' % (pid, v['replay']))
        log('  %s: %s' % (rep['job'], v['msg']))
    for n in notes: log('NOTE: ' + n[:600])
    if broken:
        for b in broken: log('BROKEN: ' + b[:3000])
    sys.stdout.flush()
    if viol: return 1
    if broken: return 2
    return 0

DEEP_BUDGET = int(os.environ.get('VK_DEEP_BUDGET', '900'))

COMMON_ASSUMPTIONS = [
    'bounded claim: only the input sizes / event counts listed under coverage.bounds are covered; nothing is claimed beyond them',
    'IR of clang++-14 -O1 -fno-exceptions x86-64 (nsw/nuw wrap, undef = 0); GCC objects used by the test-suite are bridged only by native replay',
    'allocation never fails; single thread (BOOST_ASIO_DISABLE_THREADS); BOOST_ASSERT disabled as in release builds',
    'libstdc++ 12 and Boost 1.83 bodies are executed as compiled and assumed correct; operator new/delete, mem*/str*, clocks are modelled by the engine',
    'the interpreter (vk/symir.py) and translator (vk/ir2c.py) are trusted base, cross-checked on every run by native replay of sampled paths',
]
