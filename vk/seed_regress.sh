#!/bin/bash
# applies every archived seeded change to /repo in turn, runs the quick check of the property it breaks and expects a VIOLATION;
# the working tree of /repo is restored after each one. Usage: vk/seed_regress.sh [seed ...]
cd /verif; mkdir -p out; SEEDS=${@:-$(ls seeded)}
for sd in $SEEDS; do
  pid=$(python3 -c "import json; print(json.load(open('seeded/$sd/meta.json'))['property'])")
  git -C /repo apply /verif/seeded/$sd/patch.diff || { echo "$sd: patch does not apply"; continue; }
  ./check $pid > out/seed-$sd.stdout 2> out/seed-$sd.stderr; rc=$?
  git -C /repo checkout -- .
  echo "$sd property=$pid rc=$rc violations=$(grep -c '^VIOLATION' out/seed-$sd.stdout) $(grep -m1 -A1 '^VIOLATION' out/seed-$sd.stderr out/seed-$sd.stdout 2>/dev/null | grep -m1 'vk_assert\|:' | cut -c1-160)"
done
