#!/bin/bash
# usage: vk/verify_seed.sh <worktree dir> <seed name> <property id>
# Confirms a seeded change independently of its author: the library's suite passes with it, the demonstration fails with it and
# passes without it. Archives patch + demonstration under /verif/seeded/<seed name>/.
set -u
WT=$1; NAME=$2; PID=$3; OUT=/verif/seeded/$NAME; mkdir -p $OUT; LOG=$OUT/verify.log; : > $LOG
cd $WT || exit 2
git diff -- include > $OUT/patch.diff
[ -s $OUT/patch.diff ] || { echo "no change applied in $WT" | tee -a $LOG; exit 2; }
echo "== build + suite with the change" >> $LOG
cmake --build $WT/_build -j8 >> $LOG 2>&1 || { echo "BUILD FAILED" | tee -a $LOG; exit 1; }
BIN=$(find $WT/_build -name boost_mqtt5-tests -type f | head -1)
nice -n -10 timeout 900 $BIN > $OUT/suite_with_change.log 2>&1; S=$?
tail -3 $OUT/suite_with_change.log >> $LOG
echo "== demo with the change" >> $LOG
g++ -std=c++17 -O1 -Wno-error -I$WT/include -I$WT/test/include $WT/_seed/demo.cpp -o $WT/_seed/demo_v -pthread >> $LOG 2>&1 || g++ -std=c++17 -O1 -Wno-error -I$WT/include -I$WT/test/include $WT/_seed/demo.cpp -o $WT/_seed/demo_v -lboost_unit_test_framework -pthread >> $LOG 2>&1
timeout 300 $WT/_seed/demo_v > $OUT/demo_with_change.log 2>&1; D1=$?
echo "== demo without the change" >> $LOG
rm -rf $WT/_seed/orig_v && mkdir -p $WT/_seed/orig_v && git archive HEAD include | tar -x -C $WT/_seed/orig_v
g++ -std=c++17 -O1 -Wno-error -I$WT/_seed/orig_v/include -I$WT/test/include $WT/_seed/demo.cpp -o $WT/_seed/demo_o -pthread >> $LOG 2>&1 || g++ -std=c++17 -O1 -Wno-error -I$WT/_seed/orig_v/include -I$WT/test/include $WT/_seed/demo.cpp -o $WT/_seed/demo_o -lboost_unit_test_framework -pthread >> $LOG 2>&1
timeout 300 $WT/_seed/demo_o > $OUT/demo_without_change.log 2>&1; D0=$?
cp $WT/_seed/demo.cpp $WT/_seed/README.txt $WT/_seed/notes.txt $OUT/ 2>/dev/null
echo "suite_rc=$S demo_with=$D1 demo_without=$D0" | tee -a $LOG
python3 - <<PY
import json
json.dump({"property": "$PID", "seed": "$NAME", "suite_exit_with_change": $S, "demo_exit_with_change": $D1, "demo_exit_without_change": $D0,
           "confirmed": ($S == 0 and $D1 != 0 and $D0 == 0),
           "what_ran": ["cmake --build <worktree>/_build && <worktree>/_build/test/boost_mqtt5-tests (236 cases) with the change applied",
                        "g++ demo.cpp against the changed headers -> run", "g++ demo.cpp against pristine headers (git archive HEAD include) -> run"],
           "needs_to_manifest": open("$OUT/notes.txt").read()[:1500] if __import__("os").path.exists("$OUT/notes.txt") else ""}, open("$OUT/meta.json", "w"), indent=1)
PY
