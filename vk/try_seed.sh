#!/bin/bash
# usage: vk/try_seed.sh <worktree with the change applied> <property id> [check args]   (development only: leaves /repo and /verif/evidence alone)
WT=$1; PID=$2; shift 2
export VK_REPO=$WT VK_OUT=/tmp/vk_try/$(basename $WT)/out VK_EVIDENCE=/tmp/vk_try/$(basename $WT)/evidence
mkdir -p $VK_OUT $VK_EVIDENCE
cd /verif && ./check $PID "$@" > $VK_OUT/$PID.stdout 2> $VK_OUT/$PID.stderr; rc=$?
echo "$(basename $WT) $PID rc=$rc"; grep -h "VIOLATION\|vk_assert\|BROKEN" $VK_OUT/$PID.stdout $VK_OUT/$PID.stderr | sort | uniq -c | cut -c1-300 | head -12
exit $rc
