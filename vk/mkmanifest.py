#!/usr/bin/env python3
"""Regenerates /verif/MANIFEST.json from vk/props.py (keeps the manifest valid and in step with the checks)."""
import sys, os, json
sys.path.insert(0, os.path.dirname(os.path.abspath(__file__)))
import props
VERIF = os.path.dirname(os.path.dirname(os.path.abspath(__file__)))
ALL = ['C%02d' % i for i in range(1, 21)]
checks = []
for pid in ALL:
    sp = props.P.get(pid)
    if not sp or sp.get('disabled'): continue
    engines = sorted(set(j.get('engine', 'B') for j in sp['jobs']))
    checks.append({
        'property_id': pid,
        'quick_cmd': './check %s --tier quick' % pid,
        'thorough_cmd': './check %s --tier thorough' % pid,
        'evidence_file': 'evidence/%s.json' % pid,
        'replay_cmd_template': './check %s --replay {path}' % pid,
        'engine': '+'.join({'A': 'ir2c+cbmc', 'B': 'symir+z3'}[e] for e in engines),
        'level_claimed': {'category': 'model_checking', 'text': sp['level_text'], 'design_ref': sp.get('design_ref', 'DESIGN.md section 4 (%s)' % pid)},
        'level_note': sp['level_note'],
        'technique': sp.get('technique', 'bounded symbolic execution of the clang IR of the real headers, SMT-decided (z3)' + (' and CBMC on the IR translated to C' if 'A' in engines else '')),
    })
na = [{'property_id': pid, 'reason': props.NOT_APPLICABLE.get(pid, 'no check registered yet: harness under construction')} for pid in ALL if pid not in [c['property_id'] for c in checks]]
m = {'version': 1,
     'setup_cmd': 'python3-vt -c "import z3, sys; sys.exit(0)" && which clang++-14 cbmc gdb c++filt >/dev/null',
     'hooks': {'guard': 'BOOST_MQTT5_VERIF', 'enable': 'checks compile the harness TUs with -DBOOST_MQTT5_VERIF. One guarded hook exists in /repo (commit 98026c6, include/boost/mqtt5/detail/async_mutex.hpp): async_mutex::unlock() reports whether the mutex was locked (its documented precondition) to the callback boost_mqtt5_verif_mutex_unlock defined in harness/vk_api.h. Everything else enters through template parameters and -I/verif/shadow',
               'baseline_off_cmd': 'cmake --build /repo/_build && ctest --test-dir /repo/_build/test -j8 --timeout 900', 'source_commits': ['98026c6'], 'add_only': True},
     'engines': [{'name': 'symir+z3', 'path': 'vk/symir.py', 'serves_properties': [c['property_id'] for c in checks if 'symir' in c['engine']], 'kind_free_text': 'own path-forking symbolic interpreter over clang-14 LLVM IR of the real headers; z3 decides every branch and assertion'},
                 {'name': 'ir2c+cbmc', 'path': 'vk/ir2c.py', 'serves_properties': [c['property_id'] for c in checks if 'cbmc' in c['engine']], 'kind_free_text': 'own LLVM IR -> C translator, CBMC 6.11 bounded model checker (leaf kernels, cross-check of engine B)'}],
     'checks': checks,
     'notes': 'All checks: ./check <ID> --tier quick|thorough. Exit 0 held / 1 VIOLATION (natively reproduced counterexample) / 2 machinery inconclusive (timeout, unsupported IR, vacuity, engine-native mismatch). Thorough = quick bounds (must be exhausted) followed by deeper bounds within a time budget; a deeper bound that is not exhausted is reported as such in the evidence and not claimed. Known findings: known-findings.txt.',
     'not_applicable': na}
json.dump(m, open(os.path.join(VERIF, 'MANIFEST.json'), 'w'), indent=1)
print('MANIFEST.json: %d checks, %d not applicable' % (len(checks), len(na)))
