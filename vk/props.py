"""Per-property job specifications (harness TU, entry, engine, bounds per tier, reachability witnesses)."""
P = {}
NOT_APPLICABLE = {}

P['C20'] = dict(
    exhaustive=True,
    level_text='All 9 categories x 256 byte values are covered by the solver on the real to_reason_code<cat> (both engines): acceptance, reported value and every table access (per-allocation bounds in symir, CBMC pointer checks). The space is finite and fully covered.',
    level_note='Reference tables transcribed by hand from the MQTT 5.0 sections named in the harness; clang -O1 IR; interpreter/translator trusted, cross-checked against each other and by native replay of 40 paths.',
    assumptions=['reference tables transcribed by hand from MQTT 5.0 sections 3.2.2.2, 3.4.2.1, 3.5.2.1, 3.6.2.1, 3.7.2.1, 3.9.3, 3.11.3, 3.14.2.1, 3.15.2.1'],
    jobs=[
        dict(name='rc_tables_B', tu='harness/k_reason.cpp', entry='h_rc', engine='B', reach=['accepted', 'rejected'], samples=40),
        dict(name='rc_tables_A', tu='harness/k_reason.cpp', entry='h_rc', engine='A', twin='rc_tables_B', unwind=40),
    ])

_utf8 = 'harness/k_utf8.cpp'
P['C16'] = dict(
    level_text='Every byte string up to the stated length is covered by the solver for each validator (validate_mqtt_utf8, validate_topic_name, validate_topic_alias_name, validate_topic_filter, validate_shared_topic_filter) against independent recognisers written from RFC 3629 and MQTT 5 1.5.4/4.7/4.8.2; all single-code-point encodings (1-4 bytes); the 65535/65536 length boundary.',
    level_note='Bounds: symir all strings <= 4 (quick) / 7 (thorough) bytes plus all single code points; $share/ prefix + <= 5 / 8 free bytes; CBMC cross-check all strings <= 2 / 3 bytes (CBMC needs 85 s at 3 bytes, 25 min at 4). Longer strings only at the two boundary lengths with concrete filler. Reference recognisers are hand-written. Request-level use of the validators is covered with C15.',
    assumptions=['reference recognisers transcribed by hand from RFC 3629 section 4 and MQTT 5.0 sections 1.5.4, 4.7.1, 4.7.3, 4.8.2', 'strings longer than the bound are covered only at lengths 65535 and 65536 (ASCII filler)'],
    jobs=[
        dict(name='utf8_B', tu=_utf8, entry='h_utf8', engine='B', defs_quick={'VK_N': 4}, defs_thorough={'VK_N': 7}, reach=['accept', 'reject']),
        dict(name='topic_name_B', tu=_utf8, entry='h_topic_name', engine='B', defs_quick={'VK_N': 4}, defs_thorough={'VK_N': 7}, reach=['accept', 'reject', 'wildcard']),
        dict(name='topic_alias_name_B', tu=_utf8, entry='h_topic_alias_name', engine='B', defs_quick={'VK_N': 4}, defs_thorough={'VK_N': 7}, reach=['empty-accepted']),
        dict(name='topic_filter_B', tu=_utf8, entry='h_topic_filter', engine='B', defs_quick={'VK_N': 4}, defs_thorough={'VK_N': 7}, reach=['accept', 'reject']),
        dict(name='shared_B', tu=_utf8, entry='h_shared', engine='B', defs_quick={'VK_N': 4, 'VK_SHARE_FREE': 5}, defs_thorough={'VK_N': 7, 'VK_SHARE_FREE': 8}, reach=['accept', 'reject']),
        dict(name='shared_prefix_B', tu=_utf8, entry='h_shared_prefix', engine='B', defs_quick={'VK_N': 4}, defs_thorough={'VK_N': 7}),
        dict(name='single_cp_B', tu=_utf8, entry='h_single_cp', engine='B', defs_quick={'VK_N': 4}, defs_thorough={'VK_N': 7}, reach=['accept-4-byte', 'accept-3-byte', 'accept-2-byte', 'reject-4-byte']),
        dict(name='len65536_B', tu=_utf8, entry='h_len_boundary', engine='B', defs={'VK_N': 2, 'VK_LEN': 65536}, reach=['reject'], max_insns=30_000_000, native=True),
        dict(name='len65535_B', tu=_utf8, entry='h_len_boundary', engine='B', defs={'VK_N': 2, 'VK_LEN': 65535}, reach=['accept'], max_insns=60_000_000),
        dict(name='len_shared_B', tu=_utf8, entry='h_len_shared', engine='B', defs={'VK_N': 2}, reach=['accept', 'reject'], max_insns=60_000_000, samples=8),
        dict(name='utf8_A', tu=_utf8, entry='h_utf8', engine='A', twin='utf8_B', defs_quick={'VK_N': 2}, defs_thorough={'VK_N': 3}, unwind=6, timeout=1500),
        dict(name='topic_name_A', tu=_utf8, entry='h_topic_name', engine='A', twin='topic_name_B', defs_quick={'VK_N': 2}, defs_thorough={'VK_N': 3}, unwind=6, timeout=1500, tiers=['thorough']),
        dict(name='topic_filter_A', tu=_utf8, entry='h_topic_filter', engine='A', twin='topic_filter_B', defs_quick={'VK_N': 2}, defs_thorough={'VK_N': 3}, unwind=6, timeout=1500),
    ])

_dh = 'harness/d_hostile.cpp'
def _dh_jobs():
    out = []
    for e in ['puback', 'pubrec', 'pubrel', 'pubcomp', 'suback', 'unsuback', 'disconnect', 'auth', 'connack', 'publish', 'fixed_header']:
        out.append(dict(name='dec_' + e, tu=_dh, entry='h_' + e, engine='B', defs_quick={'VK_BYTES': 6}, defs_thorough={'VK_BYTES': 9}, reach=['accepted', 'rejected']))
    return out
P['C19'] = dict(
    level_text='Every decoder (and, in the whole-client harnesses, the framing code of assemble_op and connect_op) is executed on every byte string up to the stated length held in an exact-size allocation; the solver decides for every access whether it can leave its allocation, and whether the library can accept bytes the reference decoder rejects.',
    level_note='Bounds: packet bodies <= 6 (quick) / 9 (thorough) bytes per decoder. Jobs mut_*: mutations of valid packets - a reference-encoded body of 25-45 bytes full of properties (strings, binary data, string pairs, variable byte integers, every CONNACK capability) with 1 (quick) / 2 (thorough) bytes at every choice of positions replaced by symbolic bytes, whole or truncated at every length; same oracles plus field-by-field comparison of what was decoded with the reference. UTF-8 content of received strings and at-most-once rules for properties are not part of the oracle (the reference is lenient there).',
    assumptions=['reference decoder harness/ref_mqtt.hpp written by hand from MQTT 5.0 sections 2.1-2.2, 3.1-3.15'],
    jobs=_dh_jobs())

P['SMOKE'] = dict(disabled=True, level_text='', level_note='', jobs=[dict(name='smoke', tu='harness/w_smoke.cpp', entry='h_smoke', engine='B', clock=True, reach=['end'])])

P['C07'] = dict(
    level_text='The real mqtt_client (all of async_sender, publish_send_op, replies, client_service, autoconnect_stream, reconnect/connect ops) is executed symbolically against a stub socket/timer/resolver world: Receive Maximum of each connection is one 16-bit symbol, and every order of publish / write completion / broker ack / per-operation cancellation / connection loss + reconnect up to the step bound is explored. A wire monitor, independent of the client\'s quota counter, counts QoS>0 PUBLISH packets handed to the stream and not yet acknowledged.',
    level_note='Bounds: <= 3 publishes of QoS 1 or 2 (PUBREC succeeding or failing, PUBREL retransmitted after a reconnect counts), <= 1 total-cancellation, <= 1 reconnect, 7 (quick) / 9 (thorough) steps; external events happen at quiescent points (handler queue drained). Stub world (shadow/) replaces OS sockets, timers and resolver; writes complete atomically in this harness.',
    assumptions=['environment = shadow/vk_world.hpp: FIFO executor, virtual-time timers, stream socket and resolver completed by the harness', 'external events are injected only when the handler queue is empty'],
    jobs=[dict(name='receive_maximum', tu='harness/w_c07.cpp', entry='h_c07', engine='B', clock=True, defs_quick={'VK_STEPS': 7}, defs_thorough={'VK_STEPS': 9},
               reach=['two-in-flight', 'acked', 'reconnected', 'a-publish-completed', 'qos2-publish', 'pubcomp', 'failing-pubrec', 'rejected-request'], samples=10)])

_pub_assume = ['environment = shadow/vk_world.hpp: FIFO executor, virtual-time timers, stream socket and resolver completed by the harness', 'external events are injected only when the handler queue is empty',
               'broker model: answers what it received (any listed reason code, any short form, any chunking), or sends one adversarial packet (unknown id, wrong type, inadmissible code, oversize property length); it never acknowledges the same packet twice, and it never sends a well-formed final acknowledgement bearing an identifier for which no exchange is open on its side while the client is writing a PUBLISH with that identifier (no client can tell that from an acknowledgement overtaking the write completion)']
def _pub_job(name, mode, quick, thorough, reach):
    return dict(name=name, tu='harness/w_pub.cpp', entry='h_pub', engine='B', clock=True, defs={'VK_MODE': mode}, defs_quick={'VK_STEPS': quick, 'VK_REQS': 1}, defs_thorough={'VK_STEPS': thorough, 'VK_REQS': 2}, reach=reach, samples=10)
P['C01'] = dict(
    level_text='The real mqtt_client publishes QoS 1/2 messages with symbolic topic/payload bytes, RETAIN and Message Expiry against a broker model whose every reaction (correct ack with any listed code and short form, wrong type, unknown id, inadmissible code, oversize property length, any chunking, connection loss + reconnect) is explored up to the step bound. Monitor: a completion without error implies that the reference decoder found exactly the requested PUBLISH on the wire of some connection and that the broker afterwards sent the final acknowledgement for that id with the reason code the handler received, and that the Reason String handed to the handler is the one contained in that PUBACK / PUBCOMP (present or absent, symbolic character).',
    level_note='Bounds: 1 publish of either QoS and 6 steps (quick) / 2 publishes (QoS 2 then QoS 1) and 7 steps (thorough), 1 adversarial packet, 1 reconnect; topics/payloads of 2 bytes (one symbolic each). Stub world replaces sockets/timers/resolver; a write is delivered entirely or not at all.',
    assumptions=_pub_assume,
    jobs=[_pub_job('publish_truthful', 1, 6, 7, ['puback', 'pubrec', 'pubcomp', 'bad-packet', 'reconnected', 'success-checked', 'early-delivery', 'ack-with-properties']),
          dict(name='publish_stale_ack', tu='harness/w_pub.cpp', entry='h_pub_stale', engine='B', clock=True, defs={'VK_MODE': 1, 'VK_STEPS': 6, 'VK_REQS': 1}, reach=['stale-ack', 'second-publish-was-throttled', 'second-publish-was-queued-behind-a-write', 'second-checked'], samples=8)])
P['C02'] = dict(
    level_text='Same exploration as C01 with the no-loss monitor: no accepted, un-cancelled publish completes with a transport error or try_again at any point, and from every explored state a fault-free suffix (broker reachable, answers everything) completes every request. Retransmission with the same packet identifier is checked by C03\'s monitor.',
    level_note='Bounded liveness only: the suffix is at most 10 rounds; "eventually" beyond it is not claimed. Faults explored: connection reset at quiescent points (with a write in progress failing, or succeeding locally while its bytes are lost), lost acknowledgements, one malformed/unsolicited packet, the broker obtaining a write before the client sees it complete; one or two requests, with and without Receive Maximum 1; the connection dies by reset, by orderly close (eof / broken pipe), by abort, or is noticed by the reader only while a write is in flight (that write ends with operation_aborted when the client closes the old socket). Job no_silent_loss_failed_attempts: before the client is connected again, one (quick) / two (thorough) attempts fail - TCP connect refused, CONNECT answered with CONNACK 0x88, silent broker until the 5 s timer, name resolution error - and no PUBLISH may appear on a connection whose CONNECT was not accepted.',
    assumptions=_pub_assume,
    jobs=[dict(name='no_silent_loss', tu='harness/w_pub.cpp', entry='h_pub', engine='B', clock=True, defs={'VK_MODE': 2, 'VK_ACK_VARIANTS': 3}, defs_quick={'VK_STEPS': 5, 'VK_REQS': 1, 'VK_DROP': 3}, defs_thorough={'VK_STEPS': 6, 'VK_REQS': 2, 'VK_DROP': 9}, reach=['reconnected', 'all-requests-completed'], samples=10),
          dict(name='no_silent_loss_two_requests', tu='harness/w_pub.cpp', entry='h_pub', engine='B', clock=True, defs={'VK_MODE': 2, 'VK_REQS': 2, 'VK_ACK_VARIANTS': 2}, defs_quick={'VK_STEPS': 5, 'VK_DROP': 0}, defs_thorough={'VK_STEPS': 6, 'VK_DROP': 1}, reach=['reconnected', 'all-requests-completed', 'write-lost-in-flight'], samples=10),
          dict(name='no_silent_loss_failed_attempts', tu='harness/w_pub.cpp', entry='h_pub', engine='B', clock=True, defs={'VK_MODE': 2, 'VK_REQS': 1, 'VK_ACK_VARIANTS': 1, 'VK_DROP': 0}, defs_quick={'VK_STEPS': 4, 'VK_RFAULT': 1}, defs_thorough={'VK_STEPS': 5, 'VK_RFAULT': 2},
               reach=['reconnected', 'all-requests-completed', 'attempt-refused', 'connack-refused', 'attempt-timed-out', 'resolve-failed'], samples=10),
          dict(name='no_silent_loss_throttled', tu='harness/w_pub.cpp', entry='h_pub', engine='B', clock=True, defs={'VK_MODE': 2, 'VK_REQS': 2, 'VK_ACK_VARIANTS': 2, 'VK_RM': 1, 'VK_DROP': 2}, defs_quick={'VK_STEPS': 5}, defs_thorough={'VK_STEPS': 6}, reach=['reconnected', 'all-requests-completed'], samples=10)])
P['C03'] = dict(
    level_text='Same exploration with the wire-history monitor: DUP=0 on the first transmission, every retransmitted PUBLISH byte-identical to the first except DUP, DUP=1 exactly when an earlier transmission was written successfully, same packet identifier, and no PUBLISH for an exchange once its successful PUBREC was consumed (only PUBREL).',
    level_note='Bounds as C01. Retransmission happens only across the single reconnect within the bound.',
    assumptions=_pub_assume,
    jobs=[_pub_job('qos2_sender', 3, 6, 7, ['pubrec', 'reconnected', 'retransmitted'])])

def _sub_job(name, unsub, mode, quick, thorough, reach):
    return dict(name=name, tu='harness/w_sub.cpp', entry='h_sub', engine='B', clock=True, defs={'VK_MODE': mode, 'VK_UNSUB': unsub}, defs_quick={'VK_STEPS': quick}, defs_thorough={'VK_STEPS': thorough}, reach=reach, samples=8)
P['C14'] = dict(
    level_text='The real mqtt_client subscribes / unsubscribes (1-2 topic filters with symbolic characters and option bytes, optional Subscription Identifier over its whole range, optional User Property) against a broker model; every order of write completion, correct acknowledgement (any admissible code per topic), malformed acknowledgement (one code too many / too few, inadmissible code, inadmissible code hidden among admissible ones, unknown id), chunking and reconnect is explored. Monitor: the request decoded from the wire by the reference decoder equals the call; success implies a well-formed acknowledgement for that id sent after the request was received, and the handler\'s codes are that acknowledgement\'s codes in order.',
    level_note='Bounds: one request, 1 malformed acknowledgement, 1 reconnect, 5 (quick) / 7 (thorough) steps. Jobs *_stale_ack: two requests in a row on one guided schedule with forks (acknowledgement overtaking the write completion and orphaned by a loss in three flavours / sent twice / unsolicited, all code combinations from three admissible codes), then a second request that reuses the packet identifier: no request completes with a verdict the broker sent before it had received that request.',
    assumptions=_pub_assume,
    jobs=[_sub_job('subscribe_verdicts', 0, 14, 5, 7, ['request-on-wire', 'acked', 'bad-ack', 'reconnected', 'success-checked']),
          _sub_job('unsubscribe_verdicts', 1, 14, 5, 7, ['request-on-wire', 'acked', 'bad-ack', 'success-checked']),
          dict(name='subscribe_stale_ack', tu='harness/w_sub.cpp', entry='h_sub_stale', engine='B', clock=True, defs={'VK_MODE': 14, 'VK_UNSUB': 0}, reach=['first-checked', 'second-checked', 'ack-orphaned-by-loss', 'ack-repeated', 'ack-unsolicited', 'retransmission-answered'], samples=8),
          dict(name='unsubscribe_stale_ack', tu='harness/w_sub.cpp', entry='h_sub_stale', engine='B', clock=True, defs={'VK_MODE': 14, 'VK_UNSUB': 1}, reach=['first-checked', 'second-checked', 'ack-orphaned-by-loss', 'ack-repeated', 'ack-unsolicited', 'retransmission-answered'], samples=8)])
P['C02']['jobs'] += [_sub_job('subscribe_no_loss', 0, 2, 4, 6, ['request-completed']), _sub_job('unsubscribe_no_loss', 1, 2, 4, 6, ['request-completed'])]
for _j in P['C02']['jobs'][-2:]: _j['defs'] = dict(_j['defs'], VK_DROP=9)

P['C04'] = dict(
    level_text='The real mqtt_client receives PUBLISH packets (QoS 0/1/2, symbolic topic/payload bytes and Message Expiry) from a protocol-conformant broker model; every order of new messages, PUBREL, completion of the client\'s acknowledgement writes, connection loss and reconnect with Session Present 0/1 (followed by the broker\'s DUP retransmissions and PUBREL retransmissions) is explored, then a fault-free suffix. Monitors: acknowledgement type and id per QoS, PUBCOMP only after PUBREL, every PUBREL answered, delivered topic/payload/properties equal the sent ones, QoS 2 at most once and exactly once when the exchange completes, QoS 1 at least once, order per QoS level.',
    level_note='Bounds: 2 inbound messages and one request of the application (whose packet identifier equals the one the broker uses), 1 connection loss, 5 (quick) / 6 (thorough) steps; backlog limit 65535 of the receive channel not reached. The broker retransmits only after a reconnect that resumes the session (MQTT-4.4.0-1).',
    assumptions=_pub_assume[:2] + ['broker model is a conformant MQTT sender: DUP retransmission of unacknowledged PUBLISH and of PUBREL only after a reconnect with Session Present 1'],
    jobs=[dict(name='inbound', tu='harness/w_recv.cpp', entry='h_recv', engine='B', clock=True, defs={'VK_MSGS': 2}, defs_quick={'VK_STEPS': 5}, defs_thorough={'VK_STEPS': 6},
               reach=['qos0-delivered', 'qos1-delivered', 'qos2-delivered', 'pubrel-sent', 'pubcomp-received', 'session-lost', 'session-resumed', 'publish-retransmitted', 'pubrel-retransmitted', 'write-lost-in-flight', 'own-publish', 'early-delivery', 'reconnect-refused-first'], samples=10)])

P['C05'] = dict(
    level_text='On the real mqtt_client: up to 3 operations (publish QoS 0/1/2, subscribe, unsubscribe, a request rejected by validation) plus async_run and async_receive, interleaved with write completions, broker answers, per-operation cancellation (total and terminal), cancel(), async_disconnect (DISCONNECT written or not: then the 5 s timer fires), destruction and connection loss in every order up to the step bound, followed by async_run again. Monitors: every handler at most once and never inside the initiating call; after a stop every operation including async_run and async_receive has completed, the handler queue is empty, no socket/resolver operation is pending and no timer is armed. Job stop_during_handshake: the same stop events striking at every boundary between two completion handlers of a first connection attempt or a reconnect (after the resolve, the TCP connect, the CONNECT write, each piece of the CONNACK and every handler these queue), same monitors.',
    level_note='Bounds: 3 operations, 5 (quick) / 6 (thorough) steps. "Runs out of work" is observed on the stub world: empty handler queue, no pending socket/resolver operation, no armed timer.',
    assumptions=_pub_assume[:2],
    jobs=[dict(name='completion_once_and_drain', tu='harness/w_cancel.cpp', entry='h_cancel', engine='B', clock=True, defs={'VK_OPS': 3}, defs_quick={'VK_STEPS': 5}, defs_thorough={'VK_STEPS': 6},
               reach=['answered', 'cancel', 'disconnect', 'destroyed', 'terminal-signal', 'drained', 'restarted', 'invalid-request', 'completion-left-queued', 'disconnect-write-unrecoverable'], samples=10),
          dict(name='stop_during_handshake', tu='harness/w_cancel.cpp', entry='h_cancel_handshake', engine='B', clock=True, defs={'VK_OPS': 3},
               reach=['cancel', 'disconnect', 'destroyed', 'drained', 'struck-mid-handshake', 'struck-after-connack'], samples=10),
          dict(name='completion_once_and_drain_layered', tu='harness/w_cancel.cpp', entry='h_cancel', engine='B', clock=True, defs={'VK_OPS': 2, 'VK_LAYERED': 1, 'VK_MALFORMED': 1}, defs_quick={'VK_STEPS': 4}, defs_thorough={'VK_STEPS': 5},
               reach=['answered', 'cancel', 'disconnect', 'destroyed', 'drained', 'restarted', 'shutdown-pending', 'disconnect-write-unrecoverable', 'malformed-packet', 'internal-cancel'], samples=10),
          dict(name='cancel_inside_handler', tu='harness/w_cancel.cpp', entry='h_cancel', engine='B', clock=True, defs={'VK_OPS': 3, 'VK_INLINE_DISPATCH': 1, 'VK_CANCEL_IN_HANDLER': 1}, defs_quick={'VK_STEPS': 4}, defs_thorough={'VK_STEPS': 5},
               reach=['answered', 'drained', 'cancel-in-handler-armed', 'cancel-from-a-handler'], samples=10),
          dict(name='internal_cancel', tu='harness/w_cancel.cpp', entry='h_cancel', engine='B', clock=True, defs={'VK_OPS': 2, 'VK_MALFORMED': 1}, defs_quick={'VK_STEPS': 4}, defs_thorough={'VK_STEPS': 5},
               reach=['drained', 'malformed-packet', 'internal-cancel'], samples=10),
          dict(name='stop_during_handshake_layered', tu='harness/w_cancel.cpp', entry='h_cancel_handshake', engine='B', clock=True, defs={'VK_OPS': 3, 'VK_LAYERED': 1},
               reach=['cancel', 'disconnect', 'destroyed', 'drained', 'struck-mid-handshake', 'struck-after-connack'], samples=10)])

P['C06'] = dict(
    level_text='Whole client: up to 3 publishes of any QoS with or without a (symbolic, 1..3) Receive Maximum, announced afresh (or dropped) by every connection, serial counter started next to 2^32 so that it wraps inside the bound; every order of publish / write completion / acknowledgement / connection loss + reconnect. Monitor on the wire: per connection, QoS>0 PUBLISH packets (all PUBLISH packets when no Receive Maximum applies) appear in initiation order, retransmissions included. Kernel (both engines): write_req::operator< on symbolic (flags, serial) triples is irreflexive, asymmetric, orders any two requests within a 2^31 window by initiation across the 2^32 wrap, puts prioritised first and is transitive inside a window.',
    level_note='Bounds: 3 publishes, 1 reconnect, 6 (quick) / 8 (thorough) steps; libstdc++ stable_sort is executed, not re-proved.',
    assumptions=_pub_assume[:2],
    jobs=[dict(name='wire_order', tu='harness/w_order.cpp', entry='h_order', engine='B', clock=True, defs={'VK_PUBS': 3}, defs_quick={'VK_STEPS': 6}, defs_thorough={'VK_STEPS': 8}, reach=['two-ordered', 'acked', 'reconnected', 'serial-wraps', 'receive-maximum-comes-or-goes'], samples=10),
          dict(name='comparator_B', tu='harness/w_order.cpp', entry='h_cmp', engine='B', clock=True, defs={'VK_PUBS': 3}, defs_quick={'VK_STEPS': 6}, defs_thorough={'VK_STEPS': 8}, reach=['window-order', 'transitive'], samples=10)])

P['C09'] = dict(
    level_text='On the real mqtt_client, async_disconnect (symbolic reason code, optional Reason String) is called in seven client states (never connected with an attempt in progress, with and without a request already queued; CONNECT written and CONNACK outstanding; connected idle; write in progress; one PUBLISH in flight and one throttled by Receive Maximum 1; write in progress with two requests queued behind), then every order of write completion, write failure, timer expiry (virtual time, earliest deadline first), progress of a pending connection attempt up to its CONNACK, and an inbound QoS 1 PUBLISH (whose PUBACK queues up behind the DISCONNECT) is explored, then time runs until no timer is armed. Monitors: the first packet written after the call (after the write already in progress) is the reference-decodable DISCONNECT with the given code and properties, alone in its gather-write, nothing follows it on that connection; the operation completes exactly once within 5000 ms of virtual time; all other operations and async_run complete; afterwards no write and no connection attempt.',
    level_note='Bounds: 5 (quick) / 7 (thorough) steps after the call. "Within 5 seconds" is virtual time of the stub timers. Re-sending a terminal DISCONNECT after try_again is exercised through the write-failure event.',
    assumptions=_pub_assume[:2] + ['timers fire in deadline order (virtual clock); network events take no time'],
    jobs=[dict(name='disconnect', tu='harness/w_disc.cpp', entry='h_disc', engine='B', clock=True, defs_quick={'VK_STEPS': 5}, defs_thorough={'VK_STEPS': 7},
               reach=['disconnect-on-wire', 'finished', 'write-failed', 'timer-fired', 'never-connected', 'throttled-traffic', 'never-connected-with-queued-request', 'connack-after-call', 'inbound-publish', 'connack-handlers-left-queued', 'timers-tie', 'handshake-in-progress'], samples=10)])

P['C09']['jobs'] += [dict(name='disconnect_properties_at_limit', tu='harness/w_caps.cpp', entry='h_caps_disconnect', engine='B', clock=True, reach=['kept-properties', 'dropped-properties', 'exactly-at-the-limit'], samples=6)]

P['C10'] = dict(
    level_text='On the real mqtt_client with a symbolic configuration (client id, optional user name/password, optional Will with QoS/RETAIN/Will Delay, keep-alive, optional Session Expiry and Receive Maximum) and a request queued before any connection exists: up to 3 broker attempts over the list "a,b", each with every outcome (resolve ok with 1 or 2 endpoints / failing / timing out; per endpoint: success, TCP refused, CONNACK with any listed failure code, three kinds of malformed reply, silence until the 5 s timer; arbitrary reply bytes are the handshake job of C19). Monitors: first write of each connection is exactly one CONNECT that the reference decoder maps back to the configuration with Clean Start 0; nothing else is written and no queued request completes before a successful CONNACK; endpoints then brokers are tried in order; resolve and handshake are raced against a 5000 ms timer; a pause of 500..16500 ms occurs only at wrap-around. Kernels: exponential_backoff::generate for every 64-bit generator state and 0-6 earlier calls; broker-list parsing of generated well-formed lists.',
    level_note='Bounds: 2 broker attempts (quick) / 3 (thorough), each with up to 2 endpoints; configuration content checked with symbolic values in 3 profiles on the first connection (job connect_content), gating/rotation explored with one concrete full configuration (job handshake). DNS, TCP and TLS/WebSocket handshakes are stubs. Job auth_exchange: a configured authenticator (symbolic data bytes): CONNECT carries method and initial data, the challenge of the broker is answered with exactly one AUTH, mismatching method or a failing authenticator abandons the attempt, queued traffic only after CONNACK.',
    assumptions=_pub_assume[:2] + ['timers fire in deadline order (virtual clock)'],
    jobs=[dict(name='connect_content', tu='harness/w_conn.cpp', entry='h_connect', engine='B', clock=True, defs={'VK_SYMCFG': 1, 'VK_ATTEMPTS': 1, 'VK_BYTES': 6}, reach=['connect-checked', 'connected'], samples=10),
          dict(name='handshake', tu='harness/w_conn.cpp', entry='h_connect', engine='B', clock=True, defs={'VK_SYMCFG': 0}, defs_quick={'VK_ATTEMPTS': 2, 'VK_BYTES': 6}, defs_thorough={'VK_ATTEMPTS': 3, 'VK_BYTES': 8},
               reach=['connect-checked', 'connect-repeated', 'paused', 'resolve-failed', 'resolve-timeout', 'refused', 'connack-refused', 'malformed-reply', 'silent-broker', 'connected', 'reconnect-after-success', 'connack-with-overrides'], samples=10),
          dict(name='auth_exchange', tu='harness/w_conn.cpp', entry='h_auth_handshake', engine='B', clock=True, defs={'VK_SYMCFG': 0, 'VK_ATTEMPTS': 2, 'VK_BYTES': 6}, reach=['authenticated', 'auth-abandoned', 'connack-without-challenge'], samples=8),
          dict(name='backoff', tu='harness/w_conn.cpp', entry='h_backoff', engine='B', clock=True, defs={'VK_SYMCFG': 0, 'VK_ATTEMPTS': 2, 'VK_BYTES': 6}, reach=['saturated'], samples=7),
          dict(name='broker_list', tu='harness/w_conn.cpp', entry='h_brokers', engine='B', clock=True, defs={'VK_SYMCFG': 0, 'VK_ATTEMPTS': 2, 'VK_BYTES': 6}, reach=['two-hosts', 'one-host'], samples=8)])

for _e in ['puback', 'pubcomp', 'suback', 'connack', 'publish', 'disconnect', 'auth']:
    P['C19']['jobs'].append(dict(name='mut_' + _e, tu=_dh, entry='h_mut_' + _e, engine='B', defs_quick={'VK_BYTES': 6, 'VK_MUT': 1}, defs_thorough={'VK_BYTES': 9, 'VK_MUT': 2}, reach=['accepted', 'rejected', 'truncated'], samples=8))
P['C19']['jobs'] += [dict(name='handshake_bytes', tu='harness/w_conn.cpp', entry='h_hostile_handshake', engine='B', clock=True, defs={'VK_SYMCFG': 0, 'VK_ATTEMPTS': 1}, defs_quick={'VK_BYTES': 5}, defs_thorough={'VK_BYTES': 6},
                          reach=['accepted', 'rejected', 'split', 'long-reply'], samples=10)]

P['C19']['jobs'] += [dict(name='auth_handshake_bytes', tu='harness/w_conn.cpp', entry='h_hostile_auth_handshake', engine='B', clock=True, defs={'VK_SYMCFG': 0, 'VK_ATTEMPTS': 1}, defs_quick={'VK_BYTES': 5}, defs_thorough={'VK_BYTES': 6},
                          reach=['auth-round', 'accepted', 'rejected', 'split'], samples=10)]
P['C19']['jobs'] += [dict(name='stream_bytes', tu='harness/w_hostile.cpp', entry='h_hostile_stream', engine='B', clock=True, defs={'VK_FLOOD': 0}, defs_quick={'VK_BYTES': 5}, defs_thorough={'VK_BYTES': 6},
                          reach=['split', 'completed', 'well-formed-accepted', 'malformed'], samples=10),
                     dict(name='stream_flood', tu='harness/w_hostile.cpp', entry='h_hostile_stream', engine='B', clock=True, defs={'VK_FLOOD': 1}, defs_quick={'VK_BYTES': 3}, defs_thorough={'VK_BYTES': 4},
                          reach=['flood', 'oversize-refused', 'malformed'], samples=10)]

P['C12'] = dict(
    level_text='On the real mqtt_client under virtual time (stub timers fire in deadline order): configured keep-alive and Server Keep Alive are 16-bit symbols, the negotiated K ranges over 1..20 s (and 0). Checked: ping timer armed with exactly K s and read timeout with exactly 1.5 K s after CONNACK; first PINGREQ (alone in its write) no later than K after CONNACK, the next no later than K after the previous; a silent connection is given up exactly 1.5 K after the last byte arrived - after CONNACK or after a PINGRESP - and never earlier, followed by a reconnect; a reconnect with another Server Keep Alive re-arms both timers with the new value; with K = 0 nothing is armed and nothing happens.',
    level_note='Bounds: K <= 20 s (symbolic), two ping cycles, one reconnect, one traffic pattern besides silence (a QoS 0 publish at K/2 after CONNACK and 1 ms before the second ping is due). Real time is replaced by the virtual clock of the stub timers; transport latency is zero. Job keepalive_arithmetic checks both timer durations right after CONNACK for EVERY 16-bit configured / Server Keep Alive value (no time line).',
    assumptions=_pub_assume[:2] + ['timers fire in deadline order (virtual clock); network events take no time'],
    jobs=[dict(name='keepalive', tu='harness/w_ka.cpp', entry='h_keepalive', engine='B', clock=True, defs_quick={'VK_KMAX': 20}, defs_thorough={'VK_KMAX': 60},
               reach=['no-keepalive', 'first-ping', 'timeout-reconnect', 'second-ping', 'timeout-after-traffic', 'new-keepalive', 'new-keepalive-zero', 'traffic-before-first-ping', 'traffic-before-second-ping', 'keepalive-zero-first', 'new-keepalive-session-resumed'], samples=10),
          dict(name='keepalive_arithmetic', tu='harness/w_ka.cpp', entry='h_ka_arith', engine='B', clock=True, defs_quick={'VK_KMAX': 20}, defs_thorough={'VK_KMAX': 60}, reach=['zero', 'server-keep-alive', 'configured-keep-alive'], samples=6)])

P['C13'] = dict(
    level_text='On the real mqtt_client: every sequence (up to the step bound) of subscriptions answered with an admissible SUBACK code (granted 0 / 2 or refused 0x80 / 0x87), connection losses followed by a reconnect (optionally refused once or twice with CONNACK 0x88 first) with Session Present 0 or 1, and inbound messages, with async_receive re-armed continuously. Monitor: the number of session_expired entries delivered equals the number of reconnects with Session Present 0 that were preceded, since the start or the previous report, by a granted subscription; none otherwise; and each report precedes every message the broker sent on the connection that caused it.',
    level_note='Bounds: 2 subscriptions, 2 (quick) / 3 (thorough) reconnects, 2 messages, 5 / 6 steps.',
    assumptions=_pub_assume[:2],
    jobs=[dict(name='session_expired_once', tu='harness/w_sess.cpp', entry='h_session', engine='B', clock=True, defs_quick={'VK_STEPS': 5, 'VK_RECONNECTS': 2, 'VK_REFUSALS': 1}, defs_thorough={'VK_STEPS': 6, 'VK_RECONNECTS': 3, 'VK_REFUSALS': 2},
               reach=['reported', 'subscribed', 'subscription-refused', 'session-lost-with-subscription', 'session-lost-without-subscription', 'message', 'connect-refused'], samples=10)])

_caps = 'harness/w_caps.cpp'
P['C15'] = dict(
    level_text='On the real mqtt_client holding a CONNACK whose capability properties are absent or all present with symbolic values (Maximum Packet Size 16..64, Maximum QoS, Retain Available, Topic Alias Maximum over all 16 bits, wildcard / shared / subscription-identifier availability): one publish (any QoS, RETAIN, optional symbolic Topic Alias, payload sized below / around / above the limit), one subscribe (plain, wildcard, shared, shared+wildcard filters, optional Subscription Identifier, one or two topics) or one DISCONNECT with a short or long Reason String. A reference model of the capability rules decides what must happen: a violating request completes at once with one of the documented codes of the violated capabilities, nothing is written and no packet identifier stays consumed (the next QoS 1 publish gets id 1); otherwise the packet found on the wire respects every announced limit (size measured on the wire); an oversized DISCONNECT is re-encoded without properties.',
    level_note='Bounds: one request per run; packet sizes up to ~60 bytes. Only the capabilities named in the statement. The client is run with and without limits of its own in CONNECT (symbolic Topic Alias Maximum, Receive Maximum, Maximum Packet Size 16..64): they bind the broker and must not change what the client may send.',
    assumptions=_pub_assume[:2],
    jobs=[dict(name='publish_caps', tu=_caps, entry='h_caps_publish', engine='B', clock=True, reach=['rejected-size', 'rejected-qos', 'rejected-retain', 'rejected-alias', 'accepted', 'own-limits-configured', 'authenticator-configured'], samples=10),
          dict(name='subscribe_caps', tu=_caps, entry='h_caps_subscribe', engine='B', clock=True, reach=['rejected-shared', 'rejected-wildcard', 'rejected-subid', 'accepted', 'own-limits-configured', 'authenticator-configured'], samples=10),
          dict(name='disconnect_caps', tu=_caps, entry='h_caps_disconnect', engine='B', clock=True, reach=['kept-properties', 'dropped-properties', 'exactly-at-the-limit'], samples=6)])
P['C16']['jobs'] += [dict(name='request_validation', tu=_caps, entry='h_req_validation', engine='B', clock=True,
                          reach=['subscription-identifier', 'utf8-payload', 'user-property', 'response-topic', 'content-type', 'empty-topic', 'reason-string', 'unsubscribe-filter', 'accepted', 'rejected'], samples=10)]

P['C11'] = dict(
    level_text='Kernel: the real async_mutex (the connection lock) on the FIFO executor, differentially against a small reference model, under every sequence of lock requests (3-4 waiters with cancellation slots), unlock by the holder, per-waiter cancellation signals, cancel-all and single handler executions: never two holders, is_locked() equals the model after every step, every waiter answered exactly once - success in arrival order if the model grants, operation_aborted if cancelled while queued - never inside lock/unlock/cancel/emit. Whole client: simultaneous read failure, write failure and keep-alive timeout on one connection lead to exactly one connection attempt at a time (stub socket counts overlapping attempts), and a stale trigger does not connect again. Job single_flight_restart: async_run stopped through its cancellation slot (client_service::cancel() on the same service object, unlike mqtt_client::cancel()) with one trigger holding the lock and others queued, async_run called again after it completed, further triggers during the new attempt. In every whole-client job the guarded hook in async_mutex::unlock() reports its documented precondition: the connection lock is never released while it is not locked (i.e. by someone who does not hold it).',
    level_note='Bounds: kernel 3 waiters x 8 steps (quick) / 4 x 9 (thorough); whole client: one loss with up to three simultaneous triggers. Single thread.',
    assumptions=['single thread; FIFO executor'] + _pub_assume[:1],
    jobs=[dict(name='mutex_model', tu='harness/k_mutex.cpp', entry='h_mutex', engine='B', clock=True, defs_quick={'VK_STEPS': 8, 'VK_WAITERS': 3}, defs_thorough={'VK_STEPS': 9, 'VK_WAITERS': 4},
               reach=['unlock', 'waiter-cancelled', 'cancel-all', 'granted'], samples=12),
          dict(name='single_flight', tu='harness/w_single.cpp', entry='h_single_flight', engine='B', clock=True, reach=['read-failed', 'write-failed', 'read-timeout', 'refused', 'cancelled-midway', 'reconnected-once'], samples=10),
          dict(name='single_flight_restart', tu='harness/w_single.cpp', entry='h_single_flight_restart', engine='B', clock=True, reach=['two-triggers', 'restarted', 'trigger-during-attempt', 'restarted-and-connected'], samples=10)])

_pid = 'harness/k_pid.cpp'
P['C08'] = dict(
    level_text='Inductive step on the real packet_id_allocator: from an ARBITRARY state of up to 4 (quick) / 6 (thorough) free intervals with symbolic 16-bit bounds, constrained only by the representation invariant (built through the private-member access idiom), one allocate() or one free(p) of a symbolic in-use p: invariant preserved, 0 returned exactly when nothing is free, the lowest free id returned, and the free set changes by exactly that id (checked with a universally chosen probe id). The constructor state satisfies the invariant with exactly 1..65535 free; exhaustion boundary. Since the invariant is inductive this covers histories of any length up to the interval bound. Cross-checked by bounded histories from the initial state against a shadow set, and by the whole-client monitors of C15 (a rejected request leaves no id consumed) and C07/C01 (ids of outstanding exchanges).',
    level_note='Bounds: vectors of <= 4 / 6 intervals; histories of 6 / 9 operations. Job exhaustion_on_client: the real client with an emptied free list (all 65535 identifiers in use; set through the access idiom, since 65535 simultaneous exchanges are out of reach): one or two requests of every kind are refused with pid_overrun, write nothing and leave the free set untouched; after the release of a symbolic identifier k the next request is accepted and uses k; then pid_overrun again. Release discipline (job release_discipline = the C05 exploration with the additional monitor ids-in-use == outstanding exchanges after every step, read from the private allocator of the client).',
    assumptions=['private member _free_ids is reached through the explicit-instantiation access idiom (no source change)'],
    jobs=[dict(name='pid_step', tu=_pid, entry='h_pid_step', engine='B', defs_quick={'VK_IVALS': 4}, defs_thorough={'VK_IVALS': 6}, reach=['allocated', 'exhausted', 'freed'], samples=12),
          dict(name='pid_init', tu=_pid, entry='h_pid_init', engine='B', defs_quick={'VK_IVALS': 3}, defs_thorough={'VK_IVALS': 5}, reach=['init'], samples=4),
          dict(name='pid_histories', tu=_pid, entry='h_pid_seq', engine='B', defs_quick={'VK_IVALS': 3, 'VK_OPS': 6}, defs_thorough={'VK_IVALS': 5, 'VK_OPS': 9}, reach=['freed'], samples=8),
          dict(name='release_discipline', tu='harness/w_cancel.cpp', entry='h_cancel', engine='B', clock=True, defs={'VK_OPS': 3}, defs_quick={'VK_STEPS': 4}, defs_thorough={'VK_STEPS': 6}, reach=['answered', 'cancel', 'drained'], samples=6),
          dict(name='exhaustion_on_client', tu='harness/w_cancel.cpp', entry='h_pid_exhaustion', engine='B', clock=True, defs={'VK_OPS': 3}, reach=['refused', 'recovered', 'qos0-unaffected'], samples=6),
          dict(name='pid_step_A', tu=_pid, entry='h_pid_step', engine='A', twin='pid_step', defs={'VK_IVALS': 2}, unwind=6, timeout=900, tiers=['thorough'])])

_cod = 'harness/e_codec.cpp'
def _cod_job(entry, reach):
    return dict(name=entry[2:], tu=_cod, entry=entry, engine='B', defs_quick={'VK_NPROPS': 2}, defs_thorough={'VK_NPROPS': 3}, reach=reach, samples=8)
P['C17'] = dict(
    level_text='Every encoder the client uses (CONNECT with Will, PUBLISH, PUBACK, PUBREC, PUBREL, PUBCOMP, SUBSCRIBE, UNSUBSCRIBE, PINGREQ, DISCONNECT, AUTH) is executed with symbolic scalar fields, symbolic string bytes and every combination of up to 2 (quick) / 3 (thorough) properties of its property set carrying symbolic values; PUBLISH additionally at Remaining Length 127/128 and 16383/16384. The strict reference decoder must accept the bytes as exactly one packet (fixed-header flags, Remaining Length equal to the size, only allowed properties, each at most once) and return exactly the supplied values.',
    level_note='Bounds: strings of 1-2 bytes (payload up to 16 KB with concrete filler), <= 2 / 3 properties at once, 1-2 topics. The 2097151/2097152 length boundary is not covered. Values the request validators refuse (strings > 65535, negative varint) are not encoded.',
    assumptions=['reference decoder harness/ref_mqtt.hpp written by hand from MQTT 5.0 sections 2.1-2.2, 3.1-3.15'],
    jobs=[_cod_job('h_enc_publish', ['ok', 'two-byte-length', 'three-byte-length']), _cod_job('h_enc_puback', ['ok']), _cod_job('h_enc_pubrec', ['ok']), _cod_job('h_enc_pubrel', ['ok']), _cod_job('h_enc_pubcomp', ['ok']),
          _cod_job('h_enc_subscribe', ['ok']), _cod_job('h_enc_unsubscribe', ['ok']), _cod_job('h_enc_disconnect_auth_ping', ['disconnect', 'auth', 'pingreq']), _cod_job('h_enc_connect', ['ok', 'with-will'])])
P['C18'] = dict(
    level_text='For every packet type a broker sends (CONNACK, PUBLISH, PUBACK, PUBREC, PUBREL, PUBCOMP, SUBACK, UNSUBACK, DISCONNECT, AUTH) the independent reference encoder produces a well-formed packet from symbolic fields and a forked shape (which of the allowed properties - up to 2 / 3 at once, with symbolic values -, which short form: no reason code, reason code only, with properties; 1-3 reason codes; payload 0-2 bytes); the real decoder runs on an exact-size buffer and must succeed and return exactly the encoded fields; the decoded values are then re-encoded with the real encoder and the strict reference decoder must find the same contents.',
    level_note='Bounds: strings of 1-2 bytes, <= 2 / 3 properties at once. Longer strings and more than one User Property / Subscription Identifier only through C19 and the whole-client harnesses.',
    assumptions=['reference codec harness/ref_mqtt.hpp written by hand from MQTT 5.0 sections 2.1-2.2, 3.1-3.15'],
    jobs=[_cod_job('h_dec_puback', ['short-form', 'rc-only', 'full']), _cod_job('h_dec_pubrec', ['full']), _cod_job('h_dec_pubrel', ['full']), _cod_job('h_dec_pubcomp', ['full']), _cod_job('h_dec_connack', ['ok']),
          _cod_job('h_dec_publish', ['ok']), _cod_job('h_dec_suback', ['ok']), _cod_job('h_dec_unsuback', ['ok']), _cod_job('h_dec_disconnect', ['short-form', 'rc-only', 'full']), _cod_job('h_dec_auth', ['full'])])
