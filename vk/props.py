"""Per-property job specifications (harness TU, entry, engine, bounds per tier, reachability witnesses)."""
P = {}
NOT_APPLICABLE = {}

P['C20'] = dict(
    exhaustive=True,
    level_text='All 9 categories x 256 byte values are covered by the solver on the real to_reason_code<cat> (both engines): acceptance, reported value and every table access (per-allocation bounds in symir, CBMC pointer checks). The space is finite and fully covered.',
    level_note='Reference tables transcribed by hand from the MQTT 5.0 sections named in the harness; clang -O1 IR; interpreter/translator trusted, cross-checked against each other and by native replay of 40 paths.',
    assumptions=['reference tables transcribed by hand from MQTT 5.0 sections 3.2.2.2, 3.4.2.1, 3.5.2.1, 3.6.2.1, 3.7.2.1, 3.9.3, 3.11.3, 3.14.2.1, 3.15.2.1'],
    jobs=[
        dict(name='rc_tables_B', tu='harness/k_reason.cpp', entry='h_rc', engine='B', reach=['accepted', 'rejected'], samples=40),
        dict(name='rc_tables_A', tu='harness/k_reason.cpp', entry='h_rc', engine='A', twin='rc_tables_B', unwind=40),
    ])
