"""Per-property job specifications (harness TU, entry, engine, bounds per tier, reachability witnesses)."""
P = {}
NOT_APPLICABLE = {}

P['C20'] = dict(
    exhaustive=True,
    level_text='All 9 categories x 256 byte values are covered by the solver on the real to_reason_code<cat> (both engines): acceptance, reported value and every table access (per-allocation bounds in symir, CBMC pointer checks). The space is finite and fully covered.',
    level_note='Reference tables transcribed by hand from the MQTT 5.0 sections named in the harness; clang -O1 IR; interpreter/translator trusted, cross-checked against each other and by native replay of 40 paths.',
    assumptions=['reference tables transcribed by hand from MQTT 5.0 sections 3.2.2.2, 3.4.2.1, 3.5.2.1, 3.6.2.1, 3.7.2.1, 3.9.3, 3.11.3, 3.14.2.1, 3.15.2.1'],
    jobs=[
        dict(name='rc_tables_B', tu='harness/k_reason.cpp', entry='h_rc', engine='B', reach=['accepted', 'rejected'], samples=40),
        dict(name='rc_tables_A', tu='harness/k_reason.cpp', entry='h_rc', engine='A', twin='rc_tables_B', unwind=40),
    ])

_utf8 = 'harness/k_utf8.cpp'
P['C16'] = dict(
    level_text='Every byte string up to the stated length is covered by the solver for each validator (validate_mqtt_utf8, validate_topic_name, validate_topic_alias_name, validate_topic_filter, validate_shared_topic_filter) against independent recognisers written from RFC 3629 and MQTT 5 1.5.4/4.7/4.8.2; all single-code-point encodings (1-4 bytes); the 65535/65536 length boundary.',
    level_note='Bounds: symir all strings <= 4 (quick) / 6 (thorough) bytes plus all single code points; $share/ prefix + <= 5 / 7 free bytes; CBMC cross-check all strings <= 2 / 3 bytes (CBMC needs 85 s at 3 bytes, 25 min at 4). Longer strings only at the two boundary lengths with concrete filler. Reference recognisers are hand-written. Request-level use of the validators is covered with C15.',
    assumptions=['reference recognisers transcribed by hand from RFC 3629 section 4 and MQTT 5.0 sections 1.5.4, 4.7.1, 4.7.3, 4.8.2', 'strings longer than the bound are covered only at lengths 65535 and 65536 (ASCII filler)'],
    jobs=[
        dict(name='utf8_B', tu=_utf8, entry='h_utf8', engine='B', defs_quick={'VK_N': 4}, defs_thorough={'VK_N': 6}, reach=['accept', 'reject']),
        dict(name='topic_name_B', tu=_utf8, entry='h_topic_name', engine='B', defs_quick={'VK_N': 4}, defs_thorough={'VK_N': 6}, reach=['accept', 'reject', 'wildcard']),
        dict(name='topic_alias_name_B', tu=_utf8, entry='h_topic_alias_name', engine='B', defs_quick={'VK_N': 4}, defs_thorough={'VK_N': 6}, reach=['empty-accepted']),
        dict(name='topic_filter_B', tu=_utf8, entry='h_topic_filter', engine='B', defs_quick={'VK_N': 4}, defs_thorough={'VK_N': 6}, reach=['accept', 'reject']),
        dict(name='shared_B', tu=_utf8, entry='h_shared', engine='B', defs_quick={'VK_N': 4, 'VK_SHARE_FREE': 5}, defs_thorough={'VK_N': 6, 'VK_SHARE_FREE': 7}, reach=['accept', 'reject']),
        dict(name='shared_prefix_B', tu=_utf8, entry='h_shared_prefix', engine='B', defs_quick={'VK_N': 4}, defs_thorough={'VK_N': 6}),
        dict(name='single_cp_B', tu=_utf8, entry='h_single_cp', engine='B', defs_quick={'VK_N': 4}, defs_thorough={'VK_N': 6}, reach=['accept-4-byte', 'accept-3-byte', 'accept-2-byte', 'reject-4-byte']),
        dict(name='len65536_B', tu=_utf8, entry='h_len_boundary', engine='B', defs={'VK_N': 2, 'VK_LEN': 65536}, reach=['reject'], max_insns=30_000_000, native=True),
        dict(name='len65535_B', tu=_utf8, entry='h_len_boundary', engine='B', defs={'VK_N': 2, 'VK_LEN': 65535}, reach=['accept'], max_insns=60_000_000, tiers=['thorough']),
        dict(name='utf8_A', tu=_utf8, entry='h_utf8', engine='A', twin='utf8_B', defs_quick={'VK_N': 2}, defs_thorough={'VK_N': 3}, unwind=6, timeout=1500),
        dict(name='topic_name_A', tu=_utf8, entry='h_topic_name', engine='A', twin='topic_name_B', defs_quick={'VK_N': 2}, defs_thorough={'VK_N': 3}, unwind=6, timeout=1500, tiers=['thorough']),
        dict(name='topic_filter_A', tu=_utf8, entry='h_topic_filter', engine='A', twin='topic_filter_B', defs_quick={'VK_N': 2}, defs_thorough={'VK_N': 3}, unwind=6, timeout=1500),
        dict(name='shared_A', tu=_utf8, entry='h_shared', engine='A', twin='shared_B', defs={'VK_N': 2, 'VK_SHARE_FREE': 1}, unwind=10, timeout=2400, tiers=['thorough']),
    ])

_dh = 'harness/d_hostile.cpp'
def _dh_jobs():
    out = []
    for e in ['puback', 'pubrec', 'pubrel', 'pubcomp', 'suback', 'unsuback', 'disconnect', 'auth', 'connack', 'publish', 'fixed_header']:
        out.append(dict(name='dec_' + e, tu=_dh, entry='h_' + e, engine='B', defs_quick={'VK_BYTES': 6}, defs_thorough={'VK_BYTES': 9}, reach=['accepted', 'rejected']))
    return out
P['C19'] = dict(
    level_text='Every decoder (and, in the whole-client harnesses, the framing code of assemble_op and connect_op) is executed on every byte string up to the stated length held in an exact-size allocation; the solver decides for every access whether it can leave its allocation, and whether the library can accept bytes the reference decoder rejects.',
    level_note='Bounds: packet bodies <= 6 (quick) / 9 (thorough) bytes per decoder. UTF-8 content of received strings and at-most-once rules for properties are not part of the oracle (the reference is lenient there).',
    assumptions=['reference decoder harness/ref_mqtt.hpp written by hand from MQTT 5.0 sections 2.1-2.2, 3.1-3.15'],
    jobs=_dh_jobs())

P['SMOKE'] = dict(disabled=True, level_text='', level_note='', jobs=[dict(name='smoke', tu='harness/w_smoke.cpp', entry='h_smoke', engine='B', clock=True, reach=['end'])])

P['C07'] = dict(
    level_text='The real mqtt_client (all of async_sender, publish_send_op, replies, client_service, autoconnect_stream, reconnect/connect ops) is executed symbolically against a stub socket/timer/resolver world: Receive Maximum of each connection is one 16-bit symbol, and every order of publish / write completion / broker ack / per-operation cancellation / connection loss + reconnect up to the step bound is explored. A wire monitor, independent of the client\'s quota counter, counts QoS>0 PUBLISH packets handed to the stream and not yet acknowledged.',
    level_note='Bounds: <= 3 QoS 1 publishes, <= 1 total-cancellation, <= 1 reconnect, 7 (quick) / 9 (thorough) steps; external events happen at quiescent points (handler queue drained). Stub world (shadow/) replaces OS sockets, timers and resolver; writes complete atomically in this harness.',
    assumptions=['environment = shadow/vk_world.hpp: FIFO executor, virtual-time timers, stream socket and resolver completed by the harness', 'external events are injected only when the handler queue is empty'],
    jobs=[dict(name='receive_maximum', tu='harness/w_c07.cpp', entry='h_c07', engine='B', clock=True, defs_quick={'VK_STEPS': 7}, defs_thorough={'VK_STEPS': 9},
               reach=['two-in-flight', 'acked', 'reconnected', 'a-publish-completed'], samples=10)])

_pub_assume = ['environment = shadow/vk_world.hpp: FIFO executor, virtual-time timers, stream socket and resolver completed by the harness', 'external events are injected only when the handler queue is empty',
               'broker model: answers what it received (any listed reason code, any short form, any chunking), or sends one adversarial packet (unknown id, wrong type, inadmissible code, oversize property length); it never acknowledges the same packet twice']
def _pub_job(name, mode, quick, thorough, reach):
    return dict(name=name, tu='harness/w_pub.cpp', entry='h_pub', engine='B', clock=True, defs={'VK_MODE': mode}, defs_quick={'VK_STEPS': quick, 'VK_REQS': 1}, defs_thorough={'VK_STEPS': thorough, 'VK_REQS': 2}, reach=reach, samples=10)
P['C01'] = dict(
    level_text='The real mqtt_client publishes QoS 1/2 messages with symbolic topic/payload bytes, RETAIN and Message Expiry against a broker model whose every reaction (correct ack with any listed code and short form, wrong type, unknown id, inadmissible code, oversize property length, any chunking, connection loss + reconnect) is explored up to the step bound. Monitor: a completion without error implies that the reference decoder found exactly the requested PUBLISH on the wire of some connection and that the broker afterwards sent the final acknowledgement for that id with the reason code the handler received.',
    level_note='Bounds: 1 publish of either QoS and 6 steps (quick) / 2 publishes (QoS 2 then QoS 1) and 7 steps (thorough), 1 adversarial packet, 1 reconnect; topics/payloads of 2 bytes (one symbolic each). Stub world replaces sockets/timers/resolver; a write is delivered entirely or not at all.',
    assumptions=_pub_assume,
    jobs=[_pub_job('publish_truthful', 1, 6, 7, ['puback', 'pubrec', 'pubcomp', 'bad-packet', 'reconnected', 'success-checked'])])
P['C02'] = dict(
    level_text='Same exploration as C01 with the no-loss monitor: no accepted, un-cancelled publish completes with a transport error or try_again at any point, and from every explored state a fault-free suffix (broker reachable, answers everything) completes every request. Retransmission with the same packet identifier is checked by C03\'s monitor.',
    level_note='Bounded liveness only: the suffix is at most 10 rounds; "eventually" beyond it is not claimed. Faults explored: connection reset at quiescent points (with and without a write in progress), lost acknowledgements, one malformed/unsolicited packet. Refused connections and silent brokers are covered in C10/C12.',
    assumptions=_pub_assume,
    jobs=[_pub_job('no_silent_loss', 2, 5, 6, ['reconnected', 'all-requests-completed'])])
P['C03'] = dict(
    level_text='Same exploration with the wire-history monitor: DUP=0 on the first transmission, every retransmitted PUBLISH byte-identical to the first except DUP, DUP=1 exactly when an earlier transmission was written successfully, same packet identifier, and no PUBLISH for an exchange once its successful PUBREC was consumed (only PUBREL).',
    level_note='Bounds as C01. Retransmission happens only across the single reconnect within the bound.',
    assumptions=_pub_assume,
    jobs=[_pub_job('qos2_sender', 3, 6, 7, ['pubrec', 'reconnected', 'retransmitted'])])

def _sub_job(name, unsub, mode, quick, thorough, reach):
    return dict(name=name, tu='harness/w_sub.cpp', entry='h_sub', engine='B', clock=True, defs={'VK_MODE': mode, 'VK_UNSUB': unsub}, defs_quick={'VK_STEPS': quick}, defs_thorough={'VK_STEPS': thorough}, reach=reach, samples=8)
P['C14'] = dict(
    level_text='The real mqtt_client subscribes / unsubscribes (1-2 topic filters with symbolic characters and option bytes, optional Subscription Identifier over its whole range, optional User Property) against a broker model; every order of write completion, correct acknowledgement (any admissible code per topic), malformed acknowledgement (one code too many / too few, inadmissible code, inadmissible code hidden among admissible ones, unknown id), chunking and reconnect is explored. Monitor: the request decoded from the wire by the reference decoder equals the call; success implies a well-formed acknowledgement for that id sent after the request was received, and the handler\'s codes are that acknowledgement\'s codes in order.',
    level_note='Bounds: one request, 1 malformed acknowledgement, 1 reconnect, 5 (quick) / 7 (thorough) steps.',
    assumptions=_pub_assume,
    jobs=[_sub_job('subscribe_verdicts', 0, 14, 5, 7, ['request-on-wire', 'acked', 'bad-ack', 'reconnected', 'success-checked']),
          _sub_job('unsubscribe_verdicts', 1, 14, 5, 7, ['request-on-wire', 'acked', 'bad-ack', 'success-checked'])])
P['C02']['jobs'] += [_sub_job('subscribe_no_loss', 0, 2, 4, 6, ['request-completed']), _sub_job('unsubscribe_no_loss', 1, 2, 4, 6, ['request-completed'])]

P['C04'] = dict(
    level_text='The real mqtt_client receives PUBLISH packets (QoS 0/1/2, symbolic topic/payload bytes and Message Expiry) from a protocol-conformant broker model; every order of new messages, PUBREL, completion of the client\'s acknowledgement writes, connection loss and reconnect with Session Present 0/1 (followed by the broker\'s DUP retransmissions and PUBREL retransmissions) is explored, then a fault-free suffix. Monitors: acknowledgement type and id per QoS, PUBCOMP only after PUBREL, every PUBREL answered, delivered topic/payload/properties equal the sent ones, QoS 2 at most once and exactly once when the exchange completes, QoS 1 at least once, order per QoS level.',
    level_note='Bounds: 2 messages, 1 connection loss, 6 (quick) / 8 (thorough) steps; backlog limit 65535 of the receive channel not reached. The broker retransmits only after a reconnect that resumes the session (MQTT-4.4.0-1).',
    assumptions=_pub_assume[:2] + ['broker model is a conformant MQTT sender: DUP retransmission of unacknowledged PUBLISH and of PUBREL only after a reconnect with Session Present 1'],
    jobs=[dict(name='inbound', tu='harness/w_recv.cpp', entry='h_recv', engine='B', clock=True, defs={'VK_MSGS': 2}, defs_quick={'VK_STEPS': 6}, defs_thorough={'VK_STEPS': 8},
               reach=['qos0-delivered', 'qos1-delivered', 'qos2-delivered', 'pubrel-sent', 'pubcomp-received', 'session-lost', 'session-resumed', 'publish-retransmitted', 'pubrel-retransmitted', 'write-lost-in-flight'], samples=10)])

P['C05'] = dict(
    level_text='On the real mqtt_client: up to 3 operations (publish QoS 0/1/2, subscribe, unsubscribe, a request rejected by validation) plus async_run and async_receive, interleaved with write completions, broker answers, per-operation cancellation (total and terminal), cancel(), async_disconnect (DISCONNECT written or not: then the 5 s timer fires), destruction and connection loss in every order up to the step bound, followed by async_run again. Monitors: every handler at most once and never inside the initiating call; after a stop every operation including async_run and async_receive has completed, the handler queue is empty, no socket/resolver operation is pending and no timer is armed.',
    level_note='Bounds: 3 operations, 5 (quick) / 6 (thorough) steps. "Runs out of work" is observed on the stub world: empty handler queue, no pending socket/resolver operation, no armed timer.',
    assumptions=_pub_assume[:2],
    jobs=[dict(name='completion_once_and_drain', tu='harness/w_cancel.cpp', entry='h_cancel', engine='B', clock=True, defs={'VK_OPS': 3}, defs_quick={'VK_STEPS': 5}, defs_thorough={'VK_STEPS': 6},
               reach=['answered', 'cancel', 'disconnect', 'destroyed', 'terminal-signal', 'drained', 'restarted', 'invalid-request'], samples=10)])

P['C06'] = dict(
    level_text='Whole client: up to 3 publishes of any QoS with or without a (symbolic, 1..3) Receive Maximum, serial counter started next to 2^32 so that it wraps inside the bound; every order of publish / write completion / acknowledgement / connection loss + reconnect. Monitor on the wire: per connection, QoS>0 PUBLISH packets (all PUBLISH packets when no Receive Maximum applies) appear in initiation order, retransmissions included. Kernel (both engines): write_req::operator< on symbolic (flags, serial) triples is irreflexive, asymmetric, orders any two requests within a 2^31 window by initiation across the 2^32 wrap, puts prioritised first and is transitive inside a window.',
    level_note='Bounds: 3 publishes, 1 reconnect, 6 (quick) / 8 (thorough) steps; libstdc++ stable_sort is executed, not re-proved.',
    assumptions=_pub_assume[:2],
    jobs=[dict(name='wire_order', tu='harness/w_order.cpp', entry='h_order', engine='B', clock=True, defs={'VK_PUBS': 3}, defs_quick={'VK_STEPS': 6}, defs_thorough={'VK_STEPS': 8}, reach=['two-ordered', 'acked', 'reconnected', 'serial-wraps'], samples=10),
          dict(name='comparator_B', tu='harness/w_order.cpp', entry='h_cmp', engine='B', clock=True, defs={'VK_PUBS': 3}, defs_quick={'VK_STEPS': 6}, defs_thorough={'VK_STEPS': 8}, reach=['window-order', 'transitive'], samples=10)])

P['C09'] = dict(
    level_text='On the real mqtt_client, async_disconnect (symbolic reason code, optional Reason String) is called in five client states (never connected with an attempt in progress; connected idle; write in progress; one PUBLISH in flight and one throttled by Receive Maximum 1; write in progress with two requests queued behind), then every order of write completion, write failure, timer expiry (virtual time, earliest deadline first) and progress of a pending connection attempt is explored, then time runs until no timer is armed. Monitors: the first packet written after the call (after the write already in progress) is the reference-decodable DISCONNECT with the given code and properties, alone in its gather-write, nothing follows it on that connection; the operation completes exactly once within 5000 ms of virtual time; all other operations and async_run complete; afterwards no write and no connection attempt.',
    level_note='Bounds: 5 (quick) / 7 (thorough) steps after the call. "Within 5 seconds" is virtual time of the stub timers. Re-sending a terminal DISCONNECT after try_again is exercised through the write-failure event.',
    assumptions=_pub_assume[:2] + ['timers fire in deadline order (virtual clock); network events take no time'],
    jobs=[dict(name='disconnect', tu='harness/w_disc.cpp', entry='h_disc', engine='B', clock=True, defs_quick={'VK_STEPS': 5}, defs_thorough={'VK_STEPS': 7},
               reach=['disconnect-on-wire', 'finished', 'write-failed', 'timer-fired', 'never-connected', 'throttled-traffic'], samples=10)])

P['C10'] = dict(
    level_text='On the real mqtt_client with a symbolic configuration (client id, optional user name/password, optional Will with QoS/RETAIN/Will Delay, keep-alive, optional Session Expiry and Receive Maximum) and a request queued before any connection exists: up to 3 broker attempts over the list "a,b", each with every outcome (resolve ok with 1 or 2 endpoints / failing / timing out; per endpoint: success, TCP refused, CONNACK with any listed failure code, three kinds of malformed reply, silence until the 5 s timer; arbitrary reply bytes are the handshake job of C19). Monitors: first write of each connection is exactly one CONNECT that the reference decoder maps back to the configuration with Clean Start 0; nothing else is written and no queued request completes before a successful CONNACK; endpoints then brokers are tried in order; resolve and handshake are raced against a 5000 ms timer; a pause of 500..16500 ms occurs only at wrap-around. Kernels: exponential_backoff::generate for every 64-bit generator state and 0-6 earlier calls; broker-list parsing of generated well-formed lists.',
    level_note='Bounds: 2 broker attempts (quick) / 3 (thorough), each with up to 2 endpoints; configuration content checked with symbolic values in 3 profiles on the first connection (job connect_content), gating/rotation explored with one concrete full configuration (job handshake). DNS, TCP and TLS/WebSocket handshakes are stubs; authenticator (AUTH exchange) not exercised.',
    assumptions=_pub_assume[:2] + ['timers fire in deadline order (virtual clock)'],
    jobs=[dict(name='connect_content', tu='harness/w_conn.cpp', entry='h_connect', engine='B', clock=True, defs={'VK_SYMCFG': 1, 'VK_ATTEMPTS': 1, 'VK_BYTES': 6}, reach=['connect-checked', 'connected'], samples=10),
          dict(name='handshake', tu='harness/w_conn.cpp', entry='h_connect', engine='B', clock=True, defs={'VK_SYMCFG': 0}, defs_quick={'VK_ATTEMPTS': 2, 'VK_BYTES': 6}, defs_thorough={'VK_ATTEMPTS': 3, 'VK_BYTES': 8},
               reach=['connect-checked', 'connect-repeated', 'paused', 'resolve-failed', 'resolve-timeout', 'refused', 'connack-refused', 'malformed-reply', 'silent-broker', 'connected'], samples=10),
          dict(name='backoff', tu='harness/w_conn.cpp', entry='h_backoff', engine='B', clock=True, defs={'VK_SYMCFG': 0, 'VK_ATTEMPTS': 2, 'VK_BYTES': 6}, reach=['saturated'], samples=7),
          dict(name='broker_list', tu='harness/w_conn.cpp', entry='h_brokers', engine='B', clock=True, defs={'VK_SYMCFG': 0, 'VK_ATTEMPTS': 2, 'VK_BYTES': 6}, reach=['two-hosts', 'one-host'], samples=8)])

P['C19']['jobs'] += [dict(name='handshake_bytes', tu='harness/w_conn.cpp', entry='h_hostile_handshake', engine='B', clock=True, defs={'VK_SYMCFG': 0, 'VK_ATTEMPTS': 1}, defs_quick={'VK_BYTES': 5}, defs_thorough={'VK_BYTES': 8},
                          reach=['accepted', 'rejected', 'split', 'long-reply'], samples=10)]

P['C19']['jobs'] += [dict(name='stream_bytes', tu='harness/w_hostile.cpp', entry='h_hostile_stream', engine='B', clock=True, defs={'VK_FLOOD': 0}, defs_quick={'VK_BYTES': 5}, defs_thorough={'VK_BYTES': 8},
                          reach=['split', 'completed', 'well-formed-accepted', 'malformed'], samples=10),
                     dict(name='stream_flood', tu='harness/w_hostile.cpp', entry='h_hostile_stream', engine='B', clock=True, defs={'VK_FLOOD': 1}, defs_quick={'VK_BYTES': 3}, defs_thorough={'VK_BYTES': 5},
                          reach=['flood', 'oversize-refused', 'malformed'], samples=10)]
