/* Engine A runtime: models of the externals reachable from leaf kernels, for CBMC's C front end. */
#include <stdint.h>
#include <stddef.h>
#include <string.h>
#include <stdlib.h>
uint8_t nondet_u8(void); uint16_t nondet_u16(void); uint32_t nondet_u32(void); uint64_t nondet_u64(void);
uint8_t x_vk_sym_u8(void) { uint8_t vk_in_u8 = nondet_u8(); return vk_in_u8; }
uint16_t x_vk_sym_u16(void) { uint16_t vk_in_u16 = nondet_u16(); return vk_in_u16; }
uint32_t x_vk_sym_u32(void) { uint32_t vk_in_u32 = nondet_u32(); return vk_in_u32; }
uint64_t x_vk_sym_u64(void) { uint64_t vk_in_u64 = nondet_u64(); return vk_in_u64; }
void x_vk_make_symbolic(uint8_t* p, uint64_t n) { for (uint64_t i = 0; i < n; i++) { uint8_t vk_in_byte = nondet_u8(); p[i] = vk_in_byte; } }
void x_vk_assume(uint32_t c) { __CPROVER_assume(c != 0); }
void x_vk_assert(uint32_t c, uint8_t* msg) { __CPROVER_assert(c != 0, "vk_assert"); }
void x_vk_event(uint32_t tag, uint64_t v) { }
void x_vk_reach(uint8_t* l) { }
void x_vk_note(uint8_t* l) { }
uint64_t x_vk_concretize(uint64_t v) { return v; }
void x_vk_check_range(uint8_t* p, uint64_t n) { if (n) { __CPROVER_assert(__CPROVER_r_ok(p, n), "vk_check_range"); } }
uint32_t x_vk_choose(uint32_t n) { uint32_t vk_in_choice = nondet_u32(); __CPROVER_assume(vk_in_choice < n); return vk_in_choice; }
uint32_t x_memcmp(uint8_t* a, uint8_t* b, uint64_t n) { return (uint32_t)memcmp(a, b, n); }
uint32_t x_bcmp(uint8_t* a, uint8_t* b, uint64_t n) { return (uint32_t)memcmp(a, b, n); }
uint8_t* x_memchr(uint8_t* a, uint32_t c, uint64_t n) { return (uint8_t*)memchr(a, (int)c, n); }
uint64_t x_strlen(uint8_t* a) { return strlen((char*)a); }
void x__ZSt24__throw_out_of_range_fmtPKcz(uint8_t* p0, ...) { __CPROVER_assert(0, "throw out_of_range"); __CPROVER_assume(0); }
void x__ZSt20__throw_length_errorPKc(uint8_t* p0) { __CPROVER_assert(0, "throw length_error"); __CPROVER_assume(0); }
void x__ZSt19__throw_logic_errorPKc(uint8_t* p0) { __CPROVER_assert(0, "throw logic_error"); __CPROVER_assume(0); }
void x__ZSt28__throw_bad_array_new_lengthv(void) { __CPROVER_assert(0, "throw bad_array_new_length"); __CPROVER_assume(0); }
void x__ZSt17__throw_bad_allocv(void) { __CPROVER_assume(0); }
void x__ZSt27__throw_bad_optional_accessv(void) { __CPROVER_assert(0, "throw bad_optional_access"); __CPROVER_assume(0); }
void x_abort(void) { __CPROVER_assert(0, "abort"); __CPROVER_assume(0); }
uint8_t* x__Znwm(uint64_t n) { uint8_t* p = malloc(n ? n : 1); __CPROVER_assume(p != 0); return p; }
uint8_t* x__Znam(uint64_t n) { uint8_t* p = malloc(n ? n : 1); __CPROVER_assume(p != 0); return p; }
uint8_t* x_malloc(uint64_t n) { uint8_t* p = malloc(n ? n : 1); __CPROVER_assume(p != 0); return p; }
void x_free(uint8_t* p) { free(p); }
void x__ZdlPv(uint8_t* p) { free(p); }
void x__ZdaPv(uint8_t* p) { free(p); }
void x__ZdlPvm(uint8_t* p, uint64_t n) { free(p); }
uint32_t x___cxa_atexit(void (*f)(uint8_t*), uint8_t* a, uint8_t* d) { return 0; }
uint32_t x___cxa_guard_acquire(uint64_t* g) { return *(uint8_t*)g == 0; }
void x___cxa_guard_release(uint64_t* g) { *(uint8_t*)g = 1; }
