#!/bin/bash
# run before every commit: props load, manifest regenerates and validates, evidence files validate
cd /verif && python3-vt - <<'PY'
import sys, json, glob
sys.path.insert(0, 'vk')
import props
import subprocess
subprocess.check_call(['python3-vt', 'vk/mkmanifest.py'])
import jsonschema
jsonschema.validate(json.load(open('MANIFEST.json')), json.load(open('/root/.vp/MANIFEST.schema.json')))
es = json.load(open('/root/.vp/EVIDENCE.schema.json')); n = 0
for f in glob.glob('evidence/*.json'):
    jsonschema.validate(json.load(open(f)), es); n += 1
print('selfcheck ok: %d properties, %d evidence files valid' % (len([k for k in props.P if k.startswith('C')]), n))
PY
