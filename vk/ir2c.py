#!/usr/bin/env python3
"""Engine A: LLVM-14 textual IR -> C translator for CBMC's C front end (leaf kernels only; see DESIGN.md 1.1)."""
import re, sys, collections
from irparse import *
# ---------------------------------------------------------------- C emission
def cid(name):
    """C identifier for an LLVM local/global name"""
    n = name[1:]
    if n.startswith('"'): n = n[1:-1]
    r = re.sub(r'[^A-Za-z0-9_]', lambda m: '_%02x' % ord(m.group(0)), n)
    return r

class Emit:
    def __init__(s, mod, roots, extern_models=()):
        s.m = mod
        s.lit = {}       # repr of literal struct/array -> C struct name
        s.typedefs = []  # emitted in order
        s.done = set()
        s.fn_types = {}
        s.out_types = []
        s.roots = roots
        s.extern_models = set(extern_models)

    # ---- type -> C
    def resolve(s, t):
        while isinstance(t, TNamed):
            t = s.m.named[t.name]
        return t

    def ctype(s, t):
        """C type string usable as a prefix type (no declarator tricks): aggregates/func ptrs are typedef'd"""
        if isinstance(t, TInt):
            if t.w == 1: return 'uint8_t'
            for w in (8, 16, 32, 64):
                if t.w <= w: return 'uint%d_t' % w
            if t.w <= 128: return 'unsigned __int128'
            raise Err('int width %d' % t.w)
        if isinstance(t, TVoid): return 'void'
        if isinstance(t, TFloat):
            return {'float': 'float', 'double': 'double', 'x86_fp80': 'long double'}[t.k]
        if isinstance(t, TNamed):
            r = s.m.named.get(t.name)
            if isinstance(r, TOpaque) or r is None:
                return 'struct S_' + cid(t.name)
            s.need_struct(t)
            return 'struct S_' + cid(t.name)
        if isinstance(t, TStruct) or isinstance(t, TArr):
            return s.need_lit(t)
        if isinstance(t, TPtr):
            to = t.to
            if isinstance(to, TFunc): return s.need_fnptr(to)
            if isinstance(to, TVoid): return 'void*'
            if isinstance(to, TNamed):
                # pointer to named struct: forward declaration suffices
                s.forward(to)
                return 'struct S_' + cid(to.name) + '*'
            return s.ctype(to) + '*'
        if isinstance(t, TFunc): raise Err('bare func type')
        raise Err('ctype %r' % t)

    def forward(s, t):
        nm = 'S_' + cid(t.name)
        if nm not in s.done:
            s.done.add(nm)
            s.out_types.append('struct %s;' % nm)
            r = s.m.named.get(t.name)
            if r is not None and not isinstance(r, TOpaque):
                s.pending.append(t)

    def need_struct(s, t):
        nm = 'S_' + cid(t.name)
        key = 'def:' + nm
        if key in s.done: return
        s.done.add(key)
        if nm not in s.done:
            s.done.add(nm); s.out_types.append('struct %s;' % nm)
        r = s.m.named[t.name]
        s.emit_struct_def(nm, r)

    def emit_struct_def(s, nm, r):
        if isinstance(r, TStruct):
            fields = []
            for i, e in enumerate(r.els):
                fields.append('  %s f%d;' % (s.ctype(e), i))
            if not fields: fields = ['  char _empty[0];']
            s.out_types.append('struct %s%s {\n%s\n};' % ('__attribute__((packed)) ' if r.packed else '', nm, '\n'.join(fields)))
        elif isinstance(r, TArr):
            s.out_types.append('struct %s { %s a[%d]; };' % (nm, s.ctype(r.el), max(r.n, 0)))
        else:
            s.out_types.append('struct %s { %s v; };' % (nm, s.ctype(r)))

    def need_lit(s, t):
        key = repr(t)
        if key in s.lit: return 'struct ' + s.lit[key]
        nm = 'L%d' % len(s.lit)
        s.lit[key] = nm
        s.emit_struct_def(nm, t)
        return 'struct ' + nm

    def need_fnptr(s, ft):
        key = repr(ft)
        if key in s.fn_types: return s.fn_types[key]
        nm = 'FN%d' % len(s.fn_types)
        s.fn_types[key] = nm
        args = [s.ctype(a) for a in ft.args]
        if ft.va and args: args.append('...')
        if not args and not ft.va: args = ['void']
        s.out_types.append('typedef %s (*%s)(%s);' % (s.ctype(ft.ret), nm, ', '.join(args)))
        return nm

    # ---- layout (x86-64)
    def sizeof(s, t):
        t = s.resolve(t)
        if isinstance(t, TInt): return max(1, 1 << (max(t.w, 8) - 1).bit_length()) // 8 if t.w > 8 else 1
        if isinstance(t, TPtr): return 8
        if isinstance(t, TFloat): return {'float': 4, 'double': 8, 'x86_fp80': 16}[t.k]
        if isinstance(t, TArr): return t.n * s.sizeof(t.el)
        if isinstance(t, TStruct):
            off = 0; al = 1
            for e in t.els:
                a = 1 if t.packed else s.alignof(e)
                al = max(al, a)
                off = (off + a - 1) // a * a + s.sizeof(e)
            return (off + al - 1) // al * al
        raise Err('sizeof %r' % t)
    def alignof(s, t):
        t = s.resolve(t)
        if isinstance(t, TInt): return s.sizeof(t)
        if isinstance(t, TPtr): return 8
        if isinstance(t, TFloat): return {'float': 4, 'double': 8, 'x86_fp80': 16}[t.k]
        if isinstance(t, TArr): return s.alignof(t.el)
        if isinstance(t, TStruct):
            if t.packed: return 1
            return max([s.alignof(e) for e in t.els] or [1])
        raise Err('alignof %r' % t)

    # ---- constants -> C expression (static-initializer safe)
    def cconst(s, ty, c, toplevel_init=False):
        rt = s.resolve(ty)
        k = c[0]
        if k == 'int':
            v = c[1]
            if isinstance(rt, TInt):
                v &= (1 << rt.w) - 1
                return '((%s)%dU%s)' % (s.ctype(rt), v, 'LL' if rt.w > 32 else '')
            raise Err('int const of %r' % rt)
        if k == 'null': return '((%s)0)' % s.ctype(ty)
        if k in ('zero', 'undef'):
            if isinstance(rt, (TInt, TPtr, TFloat)): return '((%s)0)' % s.ctype(ty)
            if toplevel_init: return '{0}'
            return '((%s){0})' % s.ctype(ty)
        if k == 'gref':
            nm = c[1]
            if nm in s.m.funcs:
                s.use_func(nm); return '((%s)&%s)' % (s.ctype(ty), s.fname(nm))
            s.use_glob(nm); return '((%s)&%s)' % (s.ctype(ty), cid(nm))
        if k == 'str':
            body = ', '.join(str(b) for b in c[1])
            if toplevel_init: return '{{%s}}' % body
            return '((%s){{%s}})' % (s.ctype(ty), body)
        if k == 'struct':
            body = ', '.join(s.cconst(t, e, True) for t, e in c[1]) or '0'
            if toplevel_init: return '{%s}' % body
            return '((%s){%s})' % (s.ctype(ty), body)
        if k == 'array':
            body = ', '.join(s.cconst(t, e, True) for t, e in c[1])
            if toplevel_init: return '{{%s}}' % body
            return '((%s){{%s}})' % (s.ctype(ty), body)
        if k == 'gep':
            _, bt, (pt, base), idx = c
            e = s.cconst(pt, base)
            return s.gep_expr(bt, e, [(it, s.cconst(it, ic)) for it, ic in idx], ty)
        if k == 'cast':
            _, op, (ft, cc), tt = c
            inner = s.cconst(ft, cc)
            if op in ('bitcast', 'inttoptr', 'ptrtoint', 'trunc', 'zext'):
                return '((%s)%s)' % (s.ctype(tt), inner)
            if op == 'sext':
                return '((%s)(%s)%s)' % (s.ctype(tt), s.sctype(tt), s.sx(ft, inner))
        if k == 'binop':
            _, op, (t1, a), (t2, b) = c
            return s.binop(op, t1, s.cconst(t1, a), s.cconst(t2, b))
        if k == 'icmp':
            _, pred, (t1, a), (t2, b) = c
            return s.icmp(pred, t1, s.cconst(t1, a), s.cconst(t2, b))
        if k == 'select':
            _, (t0, cc), (t1, a), (t2, b) = c
            return '(%s ? %s : %s)' % (s.cconst(t0, cc), s.cconst(t1, a), s.cconst(t2, b))
        raise Err('cconst %r' % (c,))

    def sctype(s, t):
        t = s.resolve(t)
        return {'uint8_t': 'int8_t', 'uint16_t': 'int16_t', 'uint32_t': 'int32_t', 'uint64_t': 'int64_t', 'unsigned __int128': '__int128'}[s.ctype(t)]

    def sx(s, t, e):
        """sign-extended (as signed C type of storage width) value of e which has llvm int type t"""
        t = s.resolve(t)
        w = t.w
        st = s.sctype(t)
        sw = {'int8_t': 8, 'int16_t': 16, 'int32_t': 32, 'int64_t': 64, '__int128': 128}[st]
        if w == sw: return '((%s)%s)' % (st, e)
        # odd width (incl. i1): shift up and arithmetic shift down
        return '((%s)(((%s)((%s)%s << %d)) >> %d))' % (st, st, s.ctype(t), e, sw - w, sw - w)

    def mask(s, t, e):
        t = s.resolve(t)
        ct = s.ctype(t)
        sw = {'uint8_t': 8, 'uint16_t': 16, 'uint32_t': 32, 'uint64_t': 64, 'unsigned __int128': 128}[ct]
        if t.w == sw: return '((%s)(%s))' % (ct, e)
        return '((%s)((%s) & %dU))' % (ct, e, (1 << t.w) - 1) if t.w < 32 else '((%s)((%s) & (((%s)1 << %d) - 1)))' % (ct, e, ct, t.w)

    def wide(s, t):
        """C unsigned type at least 32 bit wide to compute in (avoid int promotion UB)"""
        t = s.resolve(t)
        return 'uint32_t' if t.w <= 32 else s.ctype(t)

    def binop(s, op, t, a, b):
        rt = s.resolve(t)
        if isinstance(rt, TFloat):
            o = {'fadd': '+', 'fsub': '-', 'fmul': '*', 'fdiv': '/'}[op]
            return '(%s %s %s)' % (a, o, b)
        W = s.wide(t); w = rt.w
        if op in ('add', 'sub', 'mul', 'and', 'or', 'xor'):
            o = {'add': '+', 'sub': '-', 'mul': '*', 'and': '&', 'or': '|', 'xor': '^'}[op]
            return s.mask(t, '(%s)%s %s (%s)%s' % (W, a, o, W, b))
        if op in ('udiv', 'urem'):
            o = '/' if op == 'udiv' else '%'
            return s.mask(t, '(%s)%s %s (%s)%s' % (W, a, o, W, b))
        if op in ('sdiv', 'srem'):
            o = '/' if op == 'sdiv' else '%'
            return s.mask(t, '(%s)(%s %s %s)' % (s.ctype(t), s.sx(t, a), o, s.sx(t, b)))
        if op == 'shl':
            return s.mask(t, '((%s)%s < %d ? (%s)%s << (%s)%s : 0)' % (W, b, w, W, a, W, b))
        if op == 'lshr':
            return s.mask(t, '((%s)%s < %d ? (%s)%s >> (%s)%s : 0)' % (W, b, w, W, a, W, b))
        if op == 'ashr':
            return s.mask(t, '((%s)%s < %d ? (%s)(%s >> (%s)%s) : 0)' % (W, b, w, s.ctype(t), s.sx(t, a), W, b))
        raise Err('binop ' + op)

    def icmp(s, pred, t, a, b):
        rt = s.resolve(t)
        if isinstance(rt, TPtr):
            o = {'eq': '==', 'ne': '!=', 'ugt': '>', 'uge': '>=', 'ult': '<', 'ule': '<=', 'sgt': '>', 'sge': '>=', 'slt': '<', 'sle': '<='}[pred]
            if pred in ('eq', 'ne'):
                return '((uint8_t)((void*)%s %s (void*)%s))' % (a, o, b)
            return '((uint8_t)((uint8_t*)%s %s (uint8_t*)%s))' % (a, o, b)
        if pred in ('eq', 'ne', 'ugt', 'uge', 'ult', 'ule'):
            o = {'eq': '==', 'ne': '!=', 'ugt': '>', 'uge': '>=', 'ult': '<', 'ule': '<='}[pred]
            return '((uint8_t)(%s %s %s))' % (a, o, b)
        o = {'sgt': '>', 'sge': '>=', 'slt': '<', 'sle': '<='}[pred]
        return '((uint8_t)(%s %s %s))' % (s.sx(t, a), o, s.sx(t, b))

    def gep_expr(s, bt, base, idx, result_ty):
        """typed GEP: base is a C expr of type bt*; idx list of (type, cexpr)"""
        cur = bt
        it0, i0 = idx[0]
        e = '(%s + (int64_t)%s)' % (base, s.sx(it0, i0)) if i0 not in ('((uint64_t)0ULL)', '((uint32_t)0U)') else base
        if isinstance(s.resolve(cur), TVoid) or len(idx) == 1:
            return '((%s)%s)' % (s.ctype(result_ty), e) if result_ty is not None else e
        acc = '(*%s)' % e
        for it, ie in idx[1:]:
            r = s.resolve(cur)
            if isinstance(r, TStruct):
                m = re.fullmatch(r'\(\(uint32_t\)(\d+)U\)', ie)
                if not m: raise Err('struct gep idx not const: ' + ie)
                k = int(m.group(1))
                # make sure the struct def is emitted
                s.ctype(cur)
                acc = '%s.f%d' % (acc, k); cur = r.els[k]
            elif isinstance(r, TArr):
                s.ctype(cur)
                acc = '%s.a[(int64_t)%s]' % (acc, s.sx(it, ie)); cur = r.el
            else:
                raise Err('gep into %r' % r)
        return '((%s)&%s)' % (s.ctype(result_ty), acc) if result_ty is not None else '(&%s)' % acc

    # ---- reachability
    def use_func(s, nm):
        if nm not in s.fq_seen:
            s.fq_seen.add(nm); s.fq.append(nm)
    def use_glob(s, nm):
        if nm not in s.gq_seen:
            s.gq_seen.add(nm); s.gq.append(nm)

    def run(s):
        s.pending = []
        s.fq = []; s.fq_seen = set(); s.gq = []; s.gq_seen = set()
        for r in s.roots: s.use_func(r)
        s.ctors = []
        gc = s.m.globals.get('@llvm.global_ctors')
        if gc is not None and gc.init and gc.init[0] == 'array':
            for t, e in gc.init[1]:
                fn = e[1][1][1]
                if fn[0] == 'gref': s.ctors.append(fn[1]); s.use_func(fn[1])
        fbodies = collections.OrderedDict(); gdefs = collections.OrderedDict()
        while s.fq or s.gq or s.pending:
            while s.pending:
                t = s.pending.pop(); s.need_struct(t)
            if s.fq:
                nm = s.fq.pop(0)
                f = s.m.funcs[nm]
                fbodies[nm] = s.emit_func(f)
            elif s.gq:
                nm = s.gq.pop(0)
                gdefs[nm] = s.emit_glob(s.m.globals[nm])
        out = ['#include <stdint.h>', '#include <stddef.h>', '#include <string.h>', '#include <stdlib.h>', '/* generated by ll2c prototype */']
        out += s.out_types
        out.append('/* ---- prototypes */')
        for nm in fbodies: out.append(s.proto(s.m.funcs[nm]) + ';')
        out.append('/* ---- globals */')
        for nm, (decl, defn) in gdefs.items(): out.append(decl)
        for nm, (decl, defn) in gdefs.items():
            if defn: out.append(defn)
        out.append('/* ---- functions */')
        out.append('void vk_global_ctors(void) {\n' + ''.join('  %s();\n' % s.fname(c) for c in s.ctors) + '}')
        for nm, b in fbodies.items():
            if b: out.append(b)
        return '\n'.join(out) + '\n'

    def emit_glob(s, g):
        ct = s.ctype(g.ty)
        nm = cid(g.name)
        decl = 'extern %s %s;' % (ct, nm)
        if g.init is None:
            return (decl, None)
        return (decl, '%s %s = %s;' % (ct, nm, s.cconst(g.ty, g.init, True)))

    def fname(s, nm):
        f = s.m.funcs[nm]
        return ('x_' if f.body is None else '') + cid(nm)

    def proto(s, f):
        nm = s.fname(f.name)
        args = []
        for i, (t, pn, info) in enumerate(f.params):
            args.append('%s %s' % (s.ctype(t), 'a_' + cid(pn) if pn else 'p%d' % i))
        if f.va: args.append('...')
        if not args: args = ['void']
        return '%s %s(%s)' % (s.ctype(f.ret), nm, ', '.join(args))

    # ---- functions
    def emit_func(s, f):
        if f.body is None or f.name in s.extern_models:
            return None
        F = FuncEmit(s, f)
        try:
            return F.run()
        except Err as e:
            s.failed = getattr(s, 'failed', {})
            s.failed[f.name] = str(e).split('\n')[0]
            sys.stderr.write('UNTRANSLATED %s: %s\n' % (f.name, s.failed[f.name]))
            return s.proto(f) + ' { __CPROVER_assert(0, "untranslated function reached"); __CPROVER_assume(0); }'

INTRIN_SKIP = ('llvm.lifetime.', 'llvm.experimental.noalias.scope.decl', 'llvm.dbg.', 'llvm.invariant.', 'llvm.stackrestore')

class FuncEmit:
    def __init__(s, E, f):
        s.E = E; s.f = f
        s.vt = {}   # local name -> llvm type
        s.decl = []
        s.code = []

    def val(s, p, ty):
        """parse an operand of type ty -> C expr"""
        k, v = p.peek()
        if k == 'lid':
            p.next()
            return s.lname(v)
        c = s.E.m.const(p, ty)
        return s.E.cconst(ty, c)

    def lname(s, v):
        return 'v_' + cid(v)

    def define(s, name, ty, expr):
        s.vt[name] = ty
        rt = s.E.resolve(ty)
        s.decl.append('  %s %s;' % (s.E.ctype(ty), s.lname(name)))
        s.code.append('  %s = %s;' % (s.lname(name), expr))

    def run(s):
        E = s.E; f = s.f
        # split into blocks
        blocks = collections.OrderedDict(); cur = 'entry'; blocks[cur] = []
        first = True; pending_sw = None
        for ln in f.body:
            st = ln.strip()
            if not st or st.startswith(';'): continue
            m = re.match(r'^([-a-zA-Z$._0-9]+|"(?:[^"\\]|\\.)*"):', ln)
            if m:
                cur = m.group(1); blocks[cur] = []; continue
            if pending_sw is not None:
                pending_sw += ' ' + st
                if st == ']': blocks[cur].append(pending_sw); pending_sw = None
                continue
            if st.startswith('switch ') and st.endswith('['):
                pending_sw = st; continue
            blocks[cur].append(st)
        # entry block label: implicit number = number of params (unnamed count) -- find by scanning preds; we use 'entry'
        # Determine implicit entry label name: the first unnamed value index
        nparams = len(f.params)
        entry_label = None
        # unnamed params are %0..; entry block gets next number
        cnt = sum(1 for (t, pn, info) in f.params if pn is not None and re.fullmatch(r'%\d+', pn))
        entry_label = str(cnt)
        s.entry_label = entry_label
        # phi pre-scan
        s.phis = collections.defaultdict(list)   # pred label -> list of (phi name, ty, operand tokens)
        for bl, insns in blocks.items():
            for st in insns:
                m = re.match(r'^(%\S+) = phi (.*)$', st)
                if not m: break
                toks = tokenize(m.group(2)); p = P(toks)
                ty = p.type()
                while True:
                    p.expect('[')
                    # operand: tokens until ','
                    j = p.i; depth = 0
                    while not (p.t[j][1] == ',' and depth == 0):
                        if p.t[j][1] in '([{': depth += 1
                        if p.t[j][1] in ')]}': depth -= 1
                        j += 1
                    optoks = p.t[p.i:j]; p.i = j + 1
                    pred = p.next()[1]; p.expect(']')
                    s.phis[pred[1:] if pred.startswith('%') else pred].append((m.group(1), ty, optoks))
                    if not p.accept(','): break
        for (t, pn, info) in f.params:
            if pn: s.vt[pn] = t
        body = []
        for bl, insns in blocks.items():
            s.code = []
            label = entry_label if bl == 'entry' else bl
            s.curlabel = label
            s.code.append('L_%s: ;' % cid('%' + label))
            for st in insns:
                try:
                    s.insn(st)
                except Err as e:
                    raise Err('%s\n  in %s: %s' % (e, f.name, st))
            body += s.code
        hdr = E.proto(f) + ' {'
        params = []
        for i, (t, pn, info) in enumerate(f.params):
            if pn:
                params.append('  %s %s = a_%s;' % (E.ctype(t), s.lname(pn), cid(pn)))
        return '\n'.join([hdr] + s.decl + params + body + ['}'])

    def phi_moves(s):
        """assign phi temporaries for edges leaving the current block"""
        for (nm, ty, optoks) in s.phis.get(s.curlabel, []):
            p = P(optoks)
            e = s.val(p, ty)
            s.code.append('  %s_phi = %s;' % (s.lname(nm), e))

    def goto(s, lbl):
        return 'goto L_%s;' % cid(lbl)

    def insn(s, st):
        E = s.E
        # strip metadata suffix
        st = re.sub(r'(, !\w+ !\d+)+$', '', st)
        st = re.sub(r', !\w+ !\{[^}]*\}$', '', st)
        m = re.match(r'^(%(?:[-a-zA-Z$._0-9]+|"(?:[^"\\]|\\.)*")) = (.*)$', st)
        dst = None
        if m: dst, st = m.group(1), m.group(2)
        toks = tokenize(st); p = P(toks)
        op = p.next()[1]
        if op in ('tail', 'musttail', 'notail'): op = p.next()[1]
        if op == 'phi':
            ty = p.type()
            s.vt[dst] = ty
            s.decl.append('  %s %s; %s %s_phi;' % (E.ctype(ty), s.lname(dst), E.ctype(ty), s.lname(dst)))
            s.code.append('  %s = %s_phi;' % (s.lname(dst), s.lname(dst)))
            return
        if op in ('add', 'sub', 'mul', 'udiv', 'sdiv', 'urem', 'srem', 'shl', 'lshr', 'ashr', 'and', 'or', 'xor', 'fadd', 'fsub', 'fmul', 'fdiv'):
            while p.peek()[1] in ('nuw', 'nsw', 'exact', 'fast', 'nnan', 'ninf', 'nsz', 'arcp', 'contract', 'afn', 'reassoc'): p.next()
            ty = p.type(); a = s.val(p, ty); p.expect(','); b = s.val(p, ty)
            s.define(dst, ty, E.binop(op, ty, a, b)); return
        if op == 'icmp':
            pred = p.next()[1]; ty = p.type(); a = s.val(p, ty); p.expect(','); b = s.val(p, ty)
            s.define(dst, TInt(1), E.icmp(pred, ty, a, b)); return
        if op == 'select':
            ct = p.type(); c = s.val(p, ct); p.expect(','); t1 = p.type(); a = s.val(p, t1); p.expect(','); t2 = p.type(); b = s.val(p, t2)
            s.define(dst, t1, '(%s ? %s : %s)' % (c, a, b)); return
        if op in ('zext', 'trunc', 'bitcast', 'ptrtoint', 'inttoptr', 'sext', 'freeze', 'uitofp', 'sitofp', 'fptoui', 'fptosi', 'fpext', 'fptrunc'):
            ft = p.type(); a = s.val(p, ft)
            if op == 'freeze': s.define(dst, ft, a); return
            p.expect('to'); tt = p.type()
            if op == 'sext': e = '((%s)%s)' % (E.ctype(tt), E.sx(ft, a)); e = E.mask(tt, e)
            elif op == 'trunc': e = E.mask(tt, '(%s)%s' % (E.ctype(tt), a))
            elif op == 'sitofp': e = '((%s)%s)' % (E.ctype(tt), E.sx(ft, a))
            elif op == 'fptosi': e = E.mask(tt, '(%s)(%s)%s' % (E.ctype(tt), E.sctype(tt), a))
            elif op == 'bitcast' and not isinstance(E.resolve(tt), TPtr): raise Err('non-pointer bitcast')
            else: e = '((%s)%s)' % (E.ctype(tt), a)
            s.define(dst, tt, e); return
        if op == 'getelementptr':
            p.accept('inbounds')
            bt = p.type(); p.expect(','); pt = p.type(); base = s.val(p, pt)
            idx = []
            while p.accept(','):
                it = p.type(); idx.append((it, s.val(p, it)))
            # result type
            cur = bt
            for it, ie in idx[1:]:
                r = E.resolve(cur)
                if isinstance(r, TStruct): cur = r.els[int(re.fullmatch(r'\(\(uint32_t\)(\d+)U\)', ie).group(1))]
                elif isinstance(r, TArr): cur = r.el
                else: raise Err('gep into %r' % r)
            rty = TPtr(cur)
            s.define(dst, rty, E.gep_expr(bt, base, idx, rty)); return
        if op == 'load':
            p.accept('atomic'); p.accept('volatile')
            ty = p.type(); p.expect(','); pt = p.type(); a = s.val(p, pt)
            s.define(dst, ty, '(*%s)' % a); return
        if op == 'store':
            p.accept('atomic'); p.accept('volatile')
            ty = p.type(); v = s.val(p, ty); p.expect(','); pt = p.type(); a = s.val(p, pt)
            s.code.append('  *%s = %s;' % (a, v)); return
        if op == 'alloca':
            ty = p.type()
            n = None
            if p.accept(','):
                if p.peek()[1] != 'align':
                    nt = p.type(); n = s.val(p, nt)
            if n is not None: raise Err('dynamic alloca')
            s.vt[dst] = TPtr(ty)
            s.decl.append('  %s %s_mem; %s %s = &%s_mem;' % (E.ctype(ty), s.lname(dst), E.ctype(TPtr(ty)), s.lname(dst), s.lname(dst)))
            return
        if op == 'br':
            if p.accept('label'):
                t = p.next()[1]
                s.phi_moves(); s.code.append('  ' + s.goto(t)); return
            ct = p.type(); c = s.val(p, ct); p.expect(','); p.expect('label'); t1 = p.next()[1]; p.expect(','); p.expect('label'); t2 = p.next()[1]
            s.phi_moves()
            s.code.append('  if (%s) %s else %s' % (c, s.goto(t1), s.goto(t2))); return
        if op == 'switch':
            ty = p.type(); v = s.val(p, ty); p.expect(','); p.expect('label'); dflt = p.next()[1]; p.expect('[')
            cases = []
            while not p.accept(']'):
                ct = p.type(); cv = s.val(p, ct); p.expect(','); p.expect('label'); cases.append((cv, p.next()[1]))
            s.phi_moves()
            for cv, l in cases:
                s.code.append('  if (%s == %s) %s' % (v, cv, s.goto(l)))
            s.code.append('  ' + s.goto(dflt)); return
        if op == 'ret':
            ty = p.type()
            if isinstance(ty, TVoid): s.code.append('  return;')
            else: s.code.append('  return %s;' % s.val(p, ty))
            return
        if op == 'unreachable':
            s.code.append('  __CPROVER_assert(0, "reached LLVM unreachable"); __CPROVER_assume(0);'); return
        if op == 'extractvalue':
            ty = p.type(); a = s.val(p, ty); cur = ty; acc = a
            while p.accept(','):
                k = int(p.next()[1]); r = E.resolve(cur)
                if isinstance(r, TStruct): acc += '.f%d' % k; cur = r.els[k]
                else: acc += '.a[%d]' % k; cur = r.el
            s.define(dst, cur, acc); return
        if op == 'insertvalue':
            ty = p.type(); a = s.val(p, ty); p.expect(','); et = p.type(); ev = s.val(p, et); cur = ty; path = ''
            while p.accept(','):
                k = int(p.next()[1]); r = E.resolve(cur)
                if isinstance(r, TStruct): path += '.f%d' % k; cur = r.els[k]
                else: path += '.a[%d]' % k; cur = r.el
            s.define(dst, ty, a)
            s.code.append('  %s%s = %s;' % (s.lname(dst), path, ev)); return
        if op == 'call':
            if any(('@' + x) in st for x in INTRIN_SKIP): return
            return s.call(p, dst)
        if op == 'fence': return
        if op == 'atomicrmw':
            p.accept('volatile'); rop = p.next()[1]; pt = p.type(); a = s.val(p, pt); p.expect(','); ty = p.type(); v = s.val(p, ty)
            s.define(dst, ty, '(*%s)' % a)
            if rop == 'xchg': s.code.append('  *%s = %s;' % (a, v))
            else: s.code.append('  *%s = %s;' % (a, E.binop(rop, ty, s.lname(dst), v)))
            return
        if op == 'cmpxchg':
            p.accept('weak'); p.accept('volatile'); pt = p.type(); a = s.val(p, pt); p.expect(','); ty = p.type(); c = s.val(p, ty); p.expect(','); ty2 = p.type(); n = s.val(p, ty2)
            rty = TStruct([ty, TInt(1)], False)
            s.vt[dst] = rty
            s.decl.append('  %s %s;' % (E.ctype(rty), s.lname(dst)))
            s.code.append('  %s.f0 = *%s; %s.f1 = (%s.f0 == %s); if (%s.f1) *%s = %s;' % (s.lname(dst), a, s.lname(dst), s.lname(dst), c, s.lname(dst), a, n))
            return
        raise Err('insn? ' + op)

    def call(s, p, dst):
        E = s.E
        # skip ret attrs / cconv
        while True:
            k, v = p.peek()
            if k == 'word' and v in ('fastcc', 'ccc', 'coldcc', 'noundef', 'nonnull', 'zeroext', 'signext', 'noalias', 'inreg'): p.next()
            elif k == 'word' and v in PARAM_ATTRS_ARG:
                p.next()
                if p.accept('('): p.next(); p.expect(')')
                elif p.peek()[0] == 'num': p.next()
            else: break
        # return type, possibly full function type for varargs
        j = p.i; depth = 0
        # find callee token: first gid/lid at depth 0 that is followed by '('
        rt = p.type()
        fnty = None
        if isinstance(rt, TFunc):
            fnty = rt; rt = fnty.ret
        elif isinstance(rt, TPtr) and isinstance(rt.to, TFunc) and p.peek()[0] in ('gid', 'lid') and False:
            pass
        k, v = p.next()
        callee_tok = (k, v)
        p.expect('(')
        args = []
        if not p.accept(')'):
            while True:
                t = p.type(); skip_param_attrs(p); a = s.val(p, t); args.append((t, a))
                if p.accept(')'): break
                p.expect(',')
        if k == 'gid' and v == '@vk_assert' and len(args) == 2:
            msg = 'vk_assert'
            for tk, tv in p.t:
                g = E.m.globals.get(tv) if tk == 'gid' else None
                if g is not None and g.init is not None and g.init[0] == 'str':
                    msg = g.init[1].rstrip(b'\0').decode('latin1').replace('\\', '/').replace('"', "'")
            s.code.append('  __CPROVER_assert(%s != 0, "%s");' % (args[0][1], msg)); return
        if k == 'gid':
            name = v[1:]
            if name.startswith('llvm.'):
                return s.intrinsic(name, rt, args, dst)
            if v in E.m.funcs:
                E.use_func(v)
                callee = E.fname(v)
                fdecl = E.m.funcs[v]
                # cast args to declared param types where they differ textually
            else:
                raise Err('call to unknown ' + v)
        elif k == 'lid':
            ft = TFunc(rt, [t for t, a in args], False) if fnty is None else fnty
            callee = '((%s)%s)' % (E.need_fnptr(ft), s.lname(v))
        elif k == 'word' and v in ('bitcast',):
            raise Err('call via constexpr cast')
        else: raise Err('callee? %r' % ((k, v),))
        e = '%s(%s)' % (callee, ', '.join(a for t, a in args))
        if dst is None or isinstance(rt, TVoid): s.code.append('  %s;' % e)
        else: s.define(dst, rt, e)

    def intrinsic(s, name, rt, args, dst):
        E = s.E
        if name.startswith(INTRIN_SKIP): return
        A = [a for t, a in args]
        if name.startswith('llvm.memcpy.'): s.code.append('  memcpy(%s, %s, %s);' % (A[0], A[1], A[2])); return
        if name.startswith('llvm.memmove.'): s.code.append('  memmove(%s, %s, %s);' % (A[0], A[1], A[2])); return
        if name.startswith('llvm.memset.'): s.code.append('  memset(%s, %s, %s);' % (A[0], A[1], A[2])); return
        if name == 'llvm.assume': s.code.append('  __CPROVER_assert(%s, "llvm.assume"); __CPROVER_assume(%s);' % (A[0], A[0])); return
        if name == 'llvm.trap': s.code.append('  __CPROVER_assert(0, "llvm.trap"); __CPROVER_assume(0);'); return
        if name.startswith('llvm.expect.'): s.define(dst, rt, A[0]); return
        if name.startswith('llvm.bswap.'):
            w = E.resolve(rt).w
            if w == 16: e = '((uint16_t)((%s << 8) | (%s >> 8)))' % (A[0], A[0])
            elif w == 32: e = '((uint32_t)__builtin_bswap32(%s))' % A[0]
            else: e = '((uint64_t)__builtin_bswap64(%s))' % A[0]
            s.define(dst, rt, e); return
        m = re.match(r'llvm\.(umax|umin|smax|smin)\.', name)
        if m:
            t = args[0][0]
            o = m.group(1)
            if o[0] == 'u': c = '%s %s %s' % (A[0], '>' if o == 'umax' else '<', A[1])
            else: c = '%s %s %s' % (E.sx(t, A[0]), '>' if o == 'smax' else '<', E.sx(t, A[1]))
            s.define(dst, rt, '(%s ? %s : %s)' % (c, A[0], A[1])); return
        m = re.match(r'llvm\.(uadd|usub|umul|sadd|ssub|smul)\.with\.overflow\.i(\d+)', name)
        if m:
            o, w = m.group(1), int(m.group(2)); t = args[0][0]
            s.vt[dst] = rt
            s.decl.append('  %s %s;' % (E.ctype(rt), s.lname(dst)))
            bi = {'add': '__builtin_add_overflow', 'sub': '__builtin_sub_overflow', 'mul': '__builtin_mul_overflow'}[o[1:]]
            if o[0] == 'u':
                s.code.append('  { %s r_; %s.f1 = %s(%s, %s, &r_); %s.f0 = r_; }' % (E.ctype(t), s.lname(dst), bi, A[0], A[1], s.lname(dst)))
            else:
                s.code.append('  { %s r_; %s.f1 = %s(%s, %s, &r_); %s.f0 = (%s)r_; }' % (E.sctype(t), s.lname(dst), bi, E.sx(t, A[0]), E.sx(t, A[1]), s.lname(dst), E.ctype(t)))
            return
        if name.startswith('llvm.ctlz.') or name.startswith('llvm.cttz.'):
            w = E.resolve(rt).w
            fn = '__builtin_clz' if 'ctlz' in name else '__builtin_ctz'
            if w == 64: e = '(%s ? (uint64_t)%sll(%s) : 64)' % (A[0], fn, A[0])
            elif w == 32: e = '(%s ? (uint32_t)%s(%s) : 32)' % (A[0], fn, A[0])
            else: raise Err('ctlz width')
            s.define(dst, rt, e); return
        if name.startswith('llvm.abs.'):
            t = args[0][0]
            s.define(dst, rt, E.mask(rt, '(%s < 0 ? -(%s)%s : (%s)%s)' % (E.sx(t, A[0]), E.wide(t), A[0], E.wide(t), A[0]))); return
        if name.startswith('llvm.objectsize.'): s.define(dst, rt, '((%s)-1)' % E.ctype(rt)); return
        if name.startswith('llvm.is.constant.'): s.define(dst, rt, '0'); return
        if name == 'llvm.stacksave': s.define(dst, rt, '((%s)0)' % E.ctype(rt)); return
        raise Err('intrinsic ' + name)

if __name__ == '__main__':
    src = open(sys.argv[1]).read()
    roots = ['@' + r for r in sys.argv[3].split(',')]
    m = Module(src)
    E = Emit(m, roots)
    open(sys.argv[2], 'w').write(E.run())
