#!/bin/bash
# like seed_regress.sh, but on a scratch worktree per seed (leaves /repo and /verif/evidence alone): usage vk/seed_regress_wt.sh <seed>...
cd /verif
for sd in "$@"; do
  pid=$(python3 -c "import json; m=json.load(open('seeded/$sd/meta.json')); print(m.get('breaks_property') or m['property'])")
  wt=/tmp/wt/r_$sd; git -C /repo worktree add -q --detach $wt HEAD || continue
  if git -C $wt apply /verif/seeded/$sd/patch.diff 2>/dev/null; then
    out=$(vk/try_seed.sh $wt $pid 2>&1 | head -1); echo "$sd $out violations=$(grep -c '^VIOLATION' /tmp/vk_try/r_$sd/out/$pid.stdout)"
  else echo "$sd: patch does not apply to HEAD"; fi
  git -C /repo worktree remove --force $wt; rm -rf /tmp/vk_try/r_$sd
done
