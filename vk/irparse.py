#!/usr/bin/env python3
"""LLVM-14 textual IR (typed pointers) parser shared by both engines (ir2c -> CBMC, symir -> z3)."""
import re, sys, collections

class Err(Exception): pass

# ---------------------------------------------------------------- tokenizer
TOK = re.compile(r'''
   (?P<ws>\s+)
 | (?P<str>c?"(?:[^"\\]|\\.)*")
 | (?P<lid>%(?:[-a-zA-Z$._0-9]+|"(?:[^"\\]|\\.)*"))
 | (?P<gid>@(?:[-a-zA-Z$._0-9]+|"(?:[^"\\]|\\.)*"))
 | (?P<comdat>\$(?:[-a-zA-Z$._0-9]+|"(?:[^"\\]|\\.)*"))
 | (?P<md>![-a-zA-Z$._0-9]*)
 | (?P<attr>\#\d+)
 | (?P<num>-?\d+\.\d+(?:e[+-]?\d+)?|-?\d+|0x[0-9A-Fa-f]+)
 | (?P<word>[a-zA-Z_][a-zA-Z0-9_.]*)
 | (?P<dots>\.\.\.)
 | (?P<p>[()\[\]{}<>,=*:|])
''', re.X)

def tokenize(s):
    out = []; i = 0
    while i < len(s):
        m = TOK.match(s, i)
        if not m: raise Err('tokenize: %r' % s[i:i+40])
        i = m.end()
        k = m.lastgroup
        if k == 'ws': continue
        out.append((k, m.group(k)))
    return out

# ---------------------------------------------------------------- types
class T:
    pass
class TInt(T):
    def __init__(s, w): s.w = w
    def __repr__(s): return 'i%d' % s.w
class TVoid(T):
    def __repr__(s): return 'void'
class TFloat(T):
    def __init__(s, k): s.k = k
    def __repr__(s): return s.k
class TPtr(T):
    def __init__(s, to): s.to = to
    def __repr__(s): return '%r*' % s.to
class TArr(T):
    def __init__(s, n, el): s.n = n; s.el = el
    def __repr__(s): return '[%d x %r]' % (s.n, s.el)
class TStruct(T):
    def __init__(s, els, packed): s.els = els; s.packed = packed
    def __repr__(s): return ('<{%s}>' if s.packed else '{%s}') % ', '.join(map(repr, s.els))
class TNamed(T):
    def __init__(s, name): s.name = name
    def __repr__(s): return s.name
class TFunc(T):
    def __init__(s, ret, args, va): s.ret = ret; s.args = args; s.va = va
    def __repr__(s): return '%r (%s%s)' % (s.ret, ', '.join(map(repr, s.args)), ', ...' if s.va else '')
class TOpaque(T):
    def __repr__(s): return 'opaque'

class P:
    """token stream parser"""
    def __init__(s, toks): s.t = toks; s.i = 0
    def peek(s, k=0): return s.t[s.i+k] if s.i+k < len(s.t) else ('eof', '')
    def next(s): x = s.peek(); s.i += 1; return x
    def accept(s, v):
        if s.peek()[1] == v: s.i += 1; return True
        return False
    def expect(s, v):
        if not s.accept(v): raise Err('expected %r got %r (at %s)' % (v, s.peek(), s.t[max(0,s.i-5):s.i+5]))
    def eof(s): return s.i >= len(s.t)

    def type(s):
        k, v = s.next()
        if k == 'word':
            if re.fullmatch(r'i\d+', v): t = TInt(int(v[1:]))
            elif v == 'void': t = TVoid()
            elif v in ('float', 'double', 'x86_fp80', 'half'): t = TFloat(v)
            elif v == 'opaque': t = TOpaque()
            elif v == 'ptr': raise Err('opaque ptr')
            elif v == 'label' or v == 'metadata' or v == 'token': t = TNamed(v)
            else: raise Err('type? %s' % v)
        elif k == 'lid': t = TNamed(v)
        elif v == '[':
            n = int(s.next()[1]); s.expect('x'); el = s.type(); s.expect(']'); t = TArr(n, el)
        elif v == '{':
            els = []
            if not s.accept('}'):
                while True:
                    els.append(s.type())
                    if s.accept('}'): break
                    s.expect(',')
            t = TStruct(els, False)
        elif v == '<':
            if s.peek()[1] == '{':
                s.next(); els = []
                if not s.accept('}'):
                    while True:
                        els.append(s.type())
                        if s.accept('}'): break
                        s.expect(',')
                s.expect('>'); t = TStruct(els, True)
            else:
                raise Err('vector type unsupported')
        else: raise Err('type? %r' % ((k, v),))
        # suffixes
        while True:
            if s.accept('*'): t = TPtr(t)
            elif s.peek()[1] == '(' :
                # function type
                s.next(); args = []; va = False
                if not s.accept(')'):
                    while True:
                        if s.peek()[0] == 'dots': s.next(); va = True
                        else: args.append(s.type())
                        if s.accept(')'): break
                        s.expect(',')
                t = TFunc(t, args, va)
            elif s.peek() == ('word', 'addrspace'): raise Err('addrspace')
            else: break
        return t

PARAM_ATTRS = set('''noundef nonnull nocapture readonly readnone writeonly zeroext signext noalias returned immarg
 inreg nest nofree swiftself swifterror inalloca'''.split())
PARAM_ATTRS_ARG = set('align dereferenceable dereferenceable_or_null'.split())
PARAM_ATTRS_TY = set('byval sret byref preallocated elementtype'.split())

def skip_param_attrs(p):
    info = {}
    while True:
        k, v = p.peek()
        if k == 'word' and v in PARAM_ATTRS: p.next(); info[v] = True
        elif k == 'word' and v in PARAM_ATTRS_ARG:
            p.next()
            if p.accept('('): p.next(); p.expect(')')
            else: p.next()
        elif k == 'word' and v in PARAM_ATTRS_TY:
            p.next()
            if p.accept('('): info[v] = p.type(); p.expect(')')
        else: break
    return info

# ---------------------------------------------------------------- module parse
class Func: pass
class Glob: pass

class Module:
    def __init__(s, text):
        s.named = collections.OrderedDict()   # name -> T
        s.globals = collections.OrderedDict()
        s.funcs = collections.OrderedDict()
        s.aliases = {}
        s.parse(text)
        for a, t in s.aliases.items():
            if t in s.funcs: s.funcs[a] = s.funcs[t]

    def parse(s, text):
        lines = text.split('\n')
        i = 0
        while i < len(lines):
            ln = lines[i]
            if ln.startswith(';') or not ln.strip() or ln.startswith('source_filename') or ln.startswith('target ') \
               or ln.startswith('!') or ln.startswith('attributes ') or ln.startswith('$'):
                i += 1; continue
            if ln.startswith('%'):
                m = re.match(r'(%(?:[-a-zA-Z$._0-9]+|"(?:[^"\\]|\\.)*")) = type (.*)$', ln)
                p = P(tokenize(m.group(2)))
                s.named[m.group(1)] = p.type()
                i += 1; continue
            if ln.startswith('@'):
                s.parse_global(ln); i += 1; continue
            if ln.startswith('declare'):
                s.parse_fhead(ln, None); i += 1; continue
            if ln.startswith('define'):
                body = []
                i += 1
                while lines[i] != '}':
                    body.append(lines[i]); i += 1
                i += 1
                s.parse_fhead(ln, body); continue
            raise Err('module line? ' + ln[:80])

    def parse_global(s, ln):
        # strip metadata / trailing attrs
        toks = tokenize(ln)
        p = P(toks)
        name = p.next()[1]; p.expect('=')
        g = Glob(); g.name = name; g.ext = False; g.const = False; g.tls = False; g.init = None
        while True:
            k, v = p.peek()
            if k == 'word' and v in ('private','internal','linkonce_odr','weak_odr','external','common','weak','linkonce','available_externally','appending',
                                     'dso_local','dso_preemptable','unnamed_addr','local_unnamed_addr','hidden','default','protected','externally_initialized'):
                if v == 'external' or v == 'available_externally': g.ext = (v == 'external')
                p.next()
            elif k == 'word' and v == 'thread_local':
                p.next(); g.tls = True
                if p.accept('('): p.next(); p.expect(')')
            elif k == 'word' and v in ('global', 'constant'):
                g.const = (v == 'constant'); p.next(); break
            elif k == 'word' and v == 'alias':
                p.next(); p.type(); p.expect(','); p.type(); tgt = p.next()[1]
                s.aliases[name] = tgt; return
            else: raise Err('global? %r in %s' % ((k, v), ln[:100]))
        g.ty = p.type()
        if not g.ext and p.peek()[1] != ',' and not p.eof():
            g.init = s.const(p, g.ty)
        s.globals[name] = g

    def parse_fhead(s, ln, body):
        toks = tokenize(ln.rstrip('{ '))
        p = P(toks); p.next()
        while True:
            k, v = p.peek()
            if k == 'word' and v in ('private','internal','linkonce_odr','weak_odr','external','weak','linkonce','available_externally',
                                     'dso_local','hidden','default','protected','unnamed_addr','local_unnamed_addr','fastcc','ccc','coldcc',
                                     'noundef','nonnull','zeroext','signext','noalias'):
                p.next()
            elif k == 'word' and v in PARAM_ATTRS_ARG:
                p.next()
                if p.accept('('): p.next(); p.expect(')')
                elif p.peek()[0] == 'num': p.next()
            else: break
        f = Func()
        f.ret = p.type_nofunc() if hasattr(p, 'type_nofunc') else s._ret_type(p)
        f.name = p.next()[1]
        p.expect('(')
        f.params = []; f.va = False
        if not p.accept(')'):
            while True:
                if p.peek()[0] == 'dots': p.next(); f.va = True
                else:
                    t = p.type(); info = skip_param_attrs(p)
                    nm = None
                    if p.peek()[0] == 'lid': nm = p.next()[1]
                    f.params.append((t, nm, info))
                if p.accept(')'): break
                p.expect(',')
        f.body = body
        s.funcs[f.name] = f

    def _ret_type(s, p):
        # return type: parse a type but do not swallow the '(' of the function's own parameter list.
        # a return type that is itself a function pointer contains ')*' — handle by trial.
        save = p.i
        # find the @name token
        j = p.i
        while p.t[j][0] != 'gid': j += 1
        sub = P(p.t[p.i:j])
        t = sub.type()
        if not sub.eof(): raise Err('ret type leftover')
        p.i = j
        return t

    # ---- constants
    def const(s, p, ty):
        """parse a constant of type ty; returns a tree ('int',v) ('null',) ('zero',) ('undef',) ('struct',[..]) ('array',[..]) ('str',bytes) ('gep',...) ('cast',op,(ty,c),toty) ('gref',name) ('binop',op,a,b)"""
        k, v = p.peek()
        if k == 'num': p.next(); return ('int', int(v, 0))
        if k == 'word' and v in ('true', 'false'): p.next(); return ('int', 1 if v == 'true' else 0)
        if k == 'word' and v == 'null': p.next(); return ('null',)
        if k == 'word' and v in ('undef', 'poison'): p.next(); return ('undef',)
        if k == 'word' and v == 'zeroinitializer': p.next(); return ('zero',)
        if k == 'gid': p.next(); return ('gref', v)
        if k == 'str':
            p.next(); return ('str', unescape(v[2:-1]))
        if v == '{' or (v == '<' and p.peek(1)[1] == '{'):
            packed = (v == '<')
            p.next()
            if packed: p.next()
            els = []
            if not p.accept('}'):
                while True:
                    t = p.type(); els.append((t, s.const(p, t)))
                    if p.accept('}'): break
                    p.expect(',')
            if packed: p.expect('>')
            return ('struct', els)
        if v == '[':
            p.next(); els = []
            if not p.accept(']'):
                while True:
                    t = p.type(); els.append((t, s.const(p, t)))
                    if p.accept(']'): break
                    p.expect(',')
            return ('array', els)
        if k == 'word' and v == 'getelementptr':
            p.next(); p.accept('inbounds'); p.expect('(')
            bt = p.type(); p.expect(',')
            pt = p.type(); base = s.const(p, pt)
            idx = []
            while p.accept(','):
                p.accept('inrange')
                it = p.type(); idx.append((it, s.const(p, it)))
            p.expect(')')
            return ('gep', bt, (pt, base), idx)
        if k == 'word' and v in ('bitcast', 'ptrtoint', 'inttoptr', 'trunc', 'zext', 'sext', 'addrspacecast'):
            p.next(); p.expect('(')
            ft = p.type(); c = s.const(p, ft); p.expect('to'); tt = p.type(); p.expect(')')
            return ('cast', v, (ft, c), tt)
        if k == 'word' and v in ('add', 'sub', 'mul', 'and', 'or', 'xor', 'shl', 'lshr', 'ashr'):
            p.next()
            while p.peek()[1] in ('nuw', 'nsw', 'exact'): p.next()
            p.expect('(')
            t1 = p.type(); a = s.const(p, t1); p.expect(','); t2 = p.type(); b = s.const(p, t2); p.expect(')')
            return ('binop', v, (t1, a), (t2, b))
        if k == 'word' and v == 'icmp':
            p.next(); pred = p.next()[1]; p.expect('(')
            t1 = p.type(); a = s.const(p, t1); p.expect(','); t2 = p.type(); b = s.const(p, t2); p.expect(')')
            return ('icmp', pred, (t1, a), (t2, b))
        if k == 'word' and v == 'select':
            p.next(); p.expect('(')
            t0 = p.type(); c = s.const(p, t0); p.expect(','); t1 = p.type(); a = s.const(p, t1); p.expect(','); t2 = p.type(); b = s.const(p, t2); p.expect(')')
            return ('select', (t0, c), (t1, a), (t2, b))
        raise Err('const? %r %r' % ((k, v), p.t[p.i:p.i+6]))

def unescape(s):
    out = bytearray(); i = 0
    while i < len(s):
        if s[i] == '\\':
            if s[i+1] == '\\': out.append(92); i += 2
            else: out.append(int(s[i+1:i+3], 16)); i += 3
        else: out.append(ord(s[i])); i += 1
    return bytes(out)

