#!/usr/bin/env python3
"""Engine B: path-forking symbolic interpreter for the LLVM-14 IR clang emits for mireo/async-mqtt5.

Integers are Python ints when concrete and z3 bit-vectors (i1: z3 Bool or 1-bit vector) when symbolic.
Memory is concrete-addressed: every global / alloca / heap block is its own allocation with exact size and
a live flag; every access is checked against the one allocation it hits.  A symbolic branch condition is
decided by z3 under the path condition; if both sides are feasible the state forks.  See DESIGN.md 1.2.
"""
import sys, re, time, bisect, collections, os
import z3
from irparse import Module, P, tokenize, Err, TInt, TPtr, TArr, TStruct, TNamed, TVoid, TFunc, TFloat, skip_param_attrs, PARAM_ATTRS_ARG

class Violation(Exception):
    def __init__(s, msg, kind='assert', obj=None):
        Exception.__init__(s, msg); s.kind = kind; s.obj = obj     # obj = (kind, name, size, offset, nbytes) of the object missed
class PathEnd(Exception): pass
class Inconclusive(Exception): pass
class SliceEnd(Exception): pass

def mask(v, w): return v & ((1 << w) - 1)
def sgn(v, w): return v - (1 << w) if v >> (w - 1) else v
def isc(v): return type(v) is int

STACK_BASE = 0x7000_0000_0000
HEAP_BASE = 0x10_0000

class Layout:
    def __init__(s, m): s.m = m; s.cache = {}
    def res(s, t):
        while isinstance(t, TNamed): t = s.m.named[t.name]
        return t
    def size(s, t):
        k = repr(t)
        if k not in s.cache: s.cache[k] = s._sa(t)
        return s.cache[k][0]
    def align(s, t):
        k = repr(t)
        if k not in s.cache: s.cache[k] = s._sa(t)
        return s.cache[k][1]
    def _sa(s, t):
        t = s.res(t)
        if isinstance(t, TInt):
            b = 1
            while b * 8 < t.w: b *= 2
            return (b, b)
        if isinstance(t, TPtr): return (8, 8)
        if isinstance(t, TFloat): return {'float': (4, 4), 'double': (8, 8), 'x86_fp80': (16, 16)}[t.k]
        if isinstance(t, TArr): return (t.n * s.size(t.el), s.align(t.el))
        if isinstance(t, TStruct):
            off = 0; al = 1
            for e in t.els:
                a = 1 if t.packed else s.align(e)
                al = max(al, a); off = (off + a - 1) // a * a + s.size(e)
            return ((off + al - 1) // al * al, al)
        raise Err('size of %r' % t)
    def field_off(s, t, k):
        t = s.res(t); off = 0
        for i, e in enumerate(t.els):
            a = 1 if t.packed else s.align(e)
            off = (off + a - 1) // a * a
            if i == k: return off
            off += s.size(e)

class Alloc:
    __slots__ = ('base', 'size', 'data', 'live', 'kind', 'name', 'owner')
    def __init__(s, base, size, kind, name, owner):
        s.base = base; s.size = size; s.data = [0] * size; s.live = True; s.kind = kind; s.name = name; s.owner = owner

_state_ids = [0]
def new_id():
    _state_ids[0] += 1; return _state_ids[0]

class State:
    def __init__(s):
        s.id = new_id()
        s.allocs = {}       # base -> Alloc (globals + heap)
        s.bases = []        # sorted bases of globals + heap
        s.next = HEAP_BASE
        s.stack = []        # list of Alloc, LIFO, increasing addresses
        s.sp = STACK_BASE
        s.frames = []
        s.pc = []           # path constraints (z3 bools)
        s.inputs = []       # ordered inputs created on this path: ('sym', z3var, width) | ('choice', int, n)
        s.decisions = []    # fork decisions taken so far (for prefix replay)
        s.forced = None     # decisions to consume instead of asking the solver (list, reversed) or None
        s.idec = []         # decisions taken inside the instruction currently executing
        s.events = []       # monitor log: (tag, value)
        s.insns = 0
        s.clock = None      # last symbolic clock value
    def clone(s):
        n = State.__new__(State)
        n.id = new_id(); s.id = new_id()     # both sides lose write ownership of shared allocations
        n.allocs = dict(s.allocs); n.bases = list(s.bases); n.next = s.next
        n.stack = list(s.stack); n.sp = s.sp
        n.frames = [f.clone() for f in s.frames]
        n.pc = list(s.pc); n.inputs = list(s.inputs); n.decisions = list(s.decisions)
        n.forced = None; n.idec = []
        n.events = list(s.events); n.insns = s.insns; n.clock = s.clock
        return n
    def alloc(s, size, kind, name=''):
        base = (s.next + 15) & ~15
        s.next = base + max(size, 1) + 32
        a = Alloc(base, size, kind, name, s.id)
        s.allocs[base] = a; s.bases.append(base)       # addresses only grow: append keeps the list sorted
        return a
    def alloca(s, size, name):
        base = (s.sp + 15) & ~15
        s.sp = base + max(size, 1) + 16
        a = Alloc(base, size, 'stack', name, s.id)
        s.stack.append(a)
        return a
    def find(s, addr, n, what):
        if addr >= STACK_BASE:
            st = s.stack; lo = 0; hi = len(st)
            while lo < hi:
                mid = (lo + hi) >> 1
                if st[mid].base <= addr: lo = mid + 1
                else: hi = mid
            if lo:
                a = st[lo - 1]
                if addr + n <= a.base + a.size: return a
                raise Violation('%s of %d bytes at offset %d of stack object of %s [size %d]: out of bounds' % (what, n, addr - a.base, a.name, a.size), 'memory', ('stack', a.name, a.size, addr - a.base, n))
            raise Violation('%s of %d bytes at invalid stack address %#x' % (what, n, addr), 'memory')
        i = bisect.bisect_right(s.bases, addr) - 1
        if i >= 0:
            a = s.allocs[s.bases[i]]
            if addr + n <= a.base + a.size:
                if not a.live: raise Violation('%s of %d bytes at %#x: use after free (%s %s)' % (what, n, addr, a.kind, a.name), 'memory')
                return a
            raise Violation('%s of %d bytes at offset %d of %s %s [size %d]: out of bounds' % (what, n, addr - a.base, a.kind, a.name, a.size), 'memory', (a.kind, a.name, a.size, addr - a.base, n))
        if addr == 0: raise Violation('%s of %d bytes through null pointer' % (what, n), 'memory')
        raise Violation('%s of %d bytes at invalid address %#x' % (what, n, addr), 'memory')
    def wr(s, a):
        if a.owner != s.id:
            b = Alloc.__new__(Alloc); b.base = a.base; b.size = a.size; b.kind = a.kind; b.name = a.name
            b.data = list(a.data); b.live = a.live; b.owner = s.id
            if a.kind == 'stack':
                st = s.stack; lo = 0; hi = len(st)
                while lo < hi:
                    mid = (lo + hi) >> 1
                    if st[mid].base < a.base: lo = mid + 1
                    else: hi = mid
                st[lo] = b
            else: s.allocs[a.base] = b
            return b
        return a

class Frame:
    __slots__ = ('fn', 'regs', 'blk', 'idx', 'prev', 'nalloca', 'sp0', 'dst', 'code')
    def clone(s):
        f = Frame(); f.fn = s.fn; f.regs = dict(s.regs); f.blk = s.blk; f.idx = s.idx; f.prev = s.prev
        f.nalloca = s.nalloca; f.sp0 = s.sp0; f.dst = s.dst; f.code = s.code
        return f

class Sol:
    """one incremental z3 solver whose assertion stack is kept equal to a prefix of the current path condition"""
    def __init__(s, timeout_ms=120000):
        s.s = z3.Solver(); s.s.set('timeout', timeout_ms); s.stack = []
        s.nsat = 0; s.nunsat = 0; s.time = 0.0
    def sync(s, pc):
        st = s.stack; n = 0; m = min(len(st), len(pc))
        while n < m and st[n] is pc[n]: n += 1
        if len(st) > n:
            s.s.pop(len(st) - n); del st[n:]
        for c in pc[n:]:
            s.s.push(); s.s.add(c); st.append(c)
    def check(s, pc, extra=None):
        s.sync(pc)
        t0 = time.time()
        if extra is not None:
            s.s.push(); s.s.add(extra); r = s.s.check(); s.s.pop()
        else: r = s.s.check()
        s.time += time.time() - t0
        if r == z3.sat: s.nsat += 1; return True
        if r == z3.unsat: s.nunsat += 1; return False
        raise Inconclusive('solver returned unknown (%s)' % s.s.reason_unknown())
    def model(s, pc, extra=None):
        s.sync(pc)
        t0 = time.time()
        if extra is not None: s.s.push(); s.s.add(extra)
        r = s.s.check(); m = s.s.model() if r == z3.sat else None
        if extra is not None: s.s.pop()
        s.time += time.time() - t0
        if r == z3.sat: s.nsat += 1
        elif r == z3.unsat: s.nunsat += 1
        else: raise Inconclusive('solver returned unknown (%s)' % s.s.reason_unknown())
        return m

class Interp:
    def __init__(s, mod, ptr_fork=64, max_insns_per_path=3_000_000):
        s.m = mod; s.L = Layout(mod)
        s.faddr = {}; s.addrf = {}
        s.sol = Sol()
        s.stats = collections.Counter()
        s.ptr_fork = ptr_fork
        s.max_insns = max_insns_per_path
        s.decoded = {}
        s.called = set()
        a = 0x1000
        for nm in mod.funcs:
            s.faddr[nm] = a; s.addrf[a] = nm; a += 16
        s.gaddr = {}
        s.ext = {}
        s.concrete_inputs = None   # list of ints: concrete replay mode (translation validation inside the engine)
        s.reached = {}             # label -> count of feasible paths that reached it
        s.install_ext()

    # ---------------- globals
    def init_globals(s, st):
        s.const_globals = set(n for n, g in s.m.globals.items() if g.const)
        for nm, g in s.m.globals.items():
            if nm.startswith('@llvm.'): continue
            if g.init is None:
                # external data: modelled only for a few well-known objects
                a = st.alloc(max(s.L.size(g.ty), 8) if not isinstance(s.L.res(g.ty), TNamed) else 64, 'global', nm)
            else:
                a = st.alloc(s.L.size(g.ty), 'global', nm)
            s.gaddr[nm] = a.base
        for nm, g in s.m.globals.items():
            if nm.startswith('@llvm.') or g.init is None: continue
            a = st.allocs[s.gaddr[nm]]
            s.write_const(a, 0, g.ty, g.init)

    def write_const(s, a, off, ty, c):
        rt = s.L.res(ty); k = c[0]
        if k in ('zero', 'undef'): return
        if k == 'struct':
            for i, (t, e) in enumerate(c[1]): s.write_const(a, off + s.L.field_off(rt, i), t, e)
            return
        if k == 'array':
            es = s.L.size(rt.el)
            for i, (t, e) in enumerate(c[1]): s.write_const(a, off + i * es, t, e)
            return
        if k == 'str':
            a.data[off:off + len(c[1])] = list(c[1])
            return
        v = s.cval(ty, c)
        n = s.L.size(rt)
        for i in range(n): a.data[off + i] = (v >> (8 * i)) & 255

    def cval(s, ty, c):
        k = c[0]; rt = s.L.res(ty)
        if k == 'int': return mask(c[1], rt.w)
        if k in ('null', 'zero', 'undef'): return 0
        if k == 'gref':
            if c[1] in s.faddr: return s.faddr[c[1]]
            if c[1] in s.m.aliases:
                t = s.m.aliases[c[1]]
                return s.faddr[t] if t in s.faddr else s.gaddr[t]
            return s.gaddr[c[1]]
        if k == 'gep':
            _, bt, (pt, base), idx = c
            return s.gep(bt, s.cval(pt, base), [(it, s.cval(it, ic)) for it, ic in idx])
        if k == 'cast':
            _, op, (ft, cc), tt = c
            v = s.cval(ft, cc)
            if op in ('bitcast', 'inttoptr', 'ptrtoint', 'zext', 'addrspacecast'): return v
            if op == 'trunc': return mask(v, s.L.res(tt).w)
            if op == 'sext': return mask(sgn(v, s.L.res(ft).w), s.L.res(tt).w)
        if k == 'binop':
            _, op, (t1, a), (t2, b) = c
            return s.binop(op, s.L.res(t1).w if isinstance(s.L.res(t1), TInt) else 64, s.cval(t1, a), s.cval(t2, b))
        if k == 'icmp':
            _, pred, (t1, a), (t2, b) = c
            return s.icmp(pred, s.L.res(t1).w if isinstance(s.L.res(t1), TInt) else 64, s.cval(t1, a), s.cval(t2, b))
        if k == 'select':
            _, (t0, cc), (t1, a), (t2, b) = c
            return s.cval(t1, a) if s.cval(t0, cc) else s.cval(t2, b)
        raise Err('cval %r' % (c,))

    def gep(s, bt, base, idx):
        cur = bt
        it0, i0 = idx[0]
        off = s.mul_idx(i0, s.L.res(it0).w, s.L.size(cur))
        for it, iv in idx[1:]:
            r = s.L.res(cur)
            if isinstance(r, TStruct):
                off = s.add64(off, s.L.field_off(r, iv)); cur = r.els[iv]
            else:
                off = s.add64(off, s.mul_idx(iv, s.L.res(it).w, s.L.size(r.el))); cur = r.el
        return s.add64(base, off)

    def mul_idx(s, i, w, sz):
        if isc(i): return mask(sgn(i, w) * sz, 64)
        e = z3.SignExt(64 - w, i) if w < 64 else i
        return e * z3.BitVecVal(sz, 64)
    def add64(s, a, b):
        if isc(a) and isc(b): return (a + b) & 0xFFFFFFFFFFFFFFFF
        if isc(b) and b == 0: return a
        if isc(a) and a == 0: return b
        return s.z(a, 64) + s.z(b, 64)

    # ---------------- value helpers
    def z(s, v, w):
        """z3 bit-vector of width w"""
        if isc(v): return z3.BitVecVal(v, w)
        if z3.is_bool(v): return z3.If(v, z3.BitVecVal(1, w), z3.BitVecVal(0, w))
        return v
    def zb(s, v):
        """z3 Bool for an i1 value"""
        if isc(v): return z3.BoolVal(bool(v & 1))
        if z3.is_bool(v): return v
        return v == z3.BitVecVal(1, 1) if v.size() == 1 else v != 0

    # ---------------- arithmetic
    def binop(s, op, w, a, b):
        if isc(a) and isc(b):
            if op == 'add': return (a + b) & ((1 << w) - 1)
            if op == 'sub': return (a - b) & ((1 << w) - 1)
            if op == 'mul': return (a * b) & ((1 << w) - 1)
            if op == 'and': return a & b
            if op == 'or': return a | b
            if op == 'xor': return a ^ b
            if op == 'shl': return mask(a << b, w) if b < w else 0
            if op == 'lshr': return a >> b if b < w else 0
            if op == 'ashr': return mask(sgn(a, w) >> b, w) if b < w else (mask(-1, w) if sgn(a, w) < 0 else 0)
            if op == 'udiv':
                if b == 0: raise Violation('udiv by zero', 'arith')
                return a // b
            if op == 'urem':
                if b == 0: raise Violation('urem by zero', 'arith')
                return a % b
            if op in ('sdiv', 'srem'):
                if b == 0: raise Violation('sdiv by zero', 'arith')
                x, y = sgn(a, w), sgn(b, w)
                q = abs(x) // abs(y) * (1 if (x < 0) == (y < 0) else -1)
                return mask(q, w) if op == 'sdiv' else mask(x - q * y, w)
            raise Err('binop ' + op)
        s.stats['symops'] += 1
        if w == 1:
            x, y = s.zb(a), s.zb(b)
            if op == 'and': return z3.And(x, y)
            if op == 'or': return z3.Or(x, y)
            if op in ('xor', 'add', 'sub'): return z3.Xor(x, y)
            if op == 'mul': return z3.And(x, y)
            raise Err('binop i1 ' + op)
        # cheap identities keep terms small
        if isc(b):
            if b == 0 and op in ('add', 'sub', 'or', 'xor', 'shl', 'lshr', 'ashr'): return a if not z3.is_bool(a) else s.z(a, w)
            if op == 'and' and b == (1 << w) - 1: return s.z(a, w)
            if op == 'mul' and b == 1: return s.z(a, w)
        a, b = s.z(a, w), s.z(b, w)
        if op == 'add': return a + b
        if op == 'sub': return a - b
        if op == 'mul': return a * b
        if op == 'and': return a & b
        if op == 'or': return a | b
        if op == 'xor': return a ^ b
        if op == 'shl': return a << b
        if op == 'lshr': return z3.LShR(a, b)
        if op == 'ashr': return a >> b
        if op == 'udiv': return z3.UDiv(a, b)
        if op == 'urem': return z3.URem(a, b)
        if op == 'sdiv': return a / b
        if op == 'srem': return z3.SRem(a, b)
        raise Err('binop ' + op)

    def icmp(s, pred, w, a, b):
        if isc(a) and isc(b):
            if pred[0] == 's': a, b = sgn(a, w), sgn(b, w)
            if pred == 'eq': return int(a == b)
            if pred == 'ne': return int(a != b)
            if pred in ('ugt', 'sgt'): return int(a > b)
            if pred in ('uge', 'sge'): return int(a >= b)
            if pred in ('ult', 'slt'): return int(a < b)
            return int(a <= b)
        if w == 1:
            x, y = s.zb(a), s.zb(b)
            if pred == 'eq': return x == y
            if pred == 'ne': return z3.Xor(x, y)
            a, b = s.z(a, 1), s.z(b, 1)
        else:
            a, b = s.z(a, w), s.z(b, w)
        if pred == 'eq': return a == b
        if pred == 'ne': return a != b
        if pred == 'ugt': return z3.UGT(a, b)
        if pred == 'uge': return z3.UGE(a, b)
        if pred == 'ult': return z3.ULT(a, b)
        if pred == 'ule': return z3.ULE(a, b)
        if pred == 'sgt': return a > b
        if pred == 'sge': return a >= b
        if pred == 'slt': return a < b
        if pred == 'sle': return a <= b
        raise Err('icmp ' + pred)

    # ---------------- memory
    def load(s, st, addr, n):
        a = st.find(addr, n, 'load'); o = addr - a.base
        if n == 1:
            c = a.data[o]
            if type(c) is int: return c
            return z3.Extract(8 * c[1] + 7, 8 * c[1], c[0]) if c[0].size() > 8 else c[0]
        cells = a.data[o:o + n]
        v = 0; sh = 0
        for c in cells:
            if type(c) is not int: break
            v |= c << sh; sh += 8
        else:
            return v
        c0 = cells[0]
        if type(c0) is tuple and c0[1] == 0 and c0[0].size() == 8 * n:
            t = c0[0]
            for i in range(1, n):
                c = cells[i]
                if type(c) is not tuple or c[0] is not t or c[1] != i: break
            else: return t
        # group maximal runs of consecutive bytes of the same term into one Extract
        parts = []; i = 0
        while i < n:
            c = cells[i]
            if type(c) is int:
                j = i; v = 0
                while j < n and type(cells[j]) is int: v |= cells[j] << (8 * (j - i)); j += 1
                parts.append(z3.BitVecVal(v, 8 * (j - i))); i = j
            else:
                t, k = c; j = i + 1
                while j < n and type(cells[j]) is tuple and cells[j][0] is t and cells[j][1] == k + (j - i): j += 1
                hi = 8 * (k + (j - i)) - 1; lo = 8 * k
                parts.append(t if (lo == 0 and hi == t.size() - 1) else z3.Extract(hi, lo, t)); i = j
        return z3.Concat(*reversed(parts)) if len(parts) > 1 else parts[0]

    def store(s, st, addr, n, v):
        a = st.find(addr, n, 'store')
        if a.kind == 'global' and a.name in s.const_globals: raise Violation('store to constant global ' + a.name, 'memory')
        a = st.wr(a); o = addr - a.base
        if isc(v):
            d = a.data
            for i in range(n): d[o + i] = (v >> (8 * i)) & 255
        else:
            if z3.is_bool(v): v = z3.If(v, z3.BitVecVal(1, 8 * n), z3.BitVecVal(0, 8 * n))
            elif v.size() < 8 * n: v = z3.ZeroExt(8 * n - v.size(), v)
            d = a.data
            for i in range(n): d[o + i] = (v, i)

    # ---------------- forking primitives
    def decide(s, st, options):
        """take the next forced decision if any; returns None if the caller must ask the solver"""
        if st.forced:
            d = st.forced.pop()
            if not st.forced: st.forced = None
            return d
        return None

    def fork_bool(s, st, cond):
        """returns True/False for this path; schedules the other side (which re-executes the current instruction).
        Every call on a non-trivial condition records one decision (also when only one side is feasible), so that a
        decision prefix replays deterministically without consulting the solver."""
        cond = z3.simplify(cond)
        if z3.is_true(cond): return True
        if z3.is_false(cond): return False
        if st.forced:
            d = st.forced.pop()
            if not st.forced: st.forced = None
            st.pc.append(cond if d else z3.Not(cond)); st.decisions.append(d); st.idec.append(d)
            return d
        t = s.sol.check(st.pc, cond); f = s.sol.check(st.pc, z3.Not(cond))
        if t and f:
            n = st.clone(); n.forced = [False] + st.idec[::-1]
            # the clone re-executes the current instruction from its start: drop decisions made inside it
            if st.idec:
                del n.decisions[len(n.decisions) - len(st.idec):]
                del n.pc[len(n.pc) - len(st.idec):]
            s.pending.append(n); s.stats['forks'] += 1
        elif not t and not f: raise PathEnd()
        d = bool(t)
        st.pc.append(cond if d else z3.Not(cond)); st.decisions.append(d); st.idec.append(d)
        return d

    def choose(s, st, n):
        """free n-way choice (an unconstrained symbol switched over): forks without consulting the solver"""
        if s.concrete_inputs is not None:
            v = s.next_concrete() % n
        elif st.forced:
            v = st.forced.pop()
            if not st.forced: st.forced = None
        else:
            for x in range(n - 1, 0, -1):
                c = st.clone(); c.forced = [x] + st.idec[::-1]
                if st.idec:
                    del c.decisions[len(c.decisions) - len(st.idec):]
                    del c.pc[len(c.pc) - len(st.idec):]
                s.pending.append(c); s.stats['forks'] += 1
            v = 0
        st.decisions.append(v); st.idec.append(v); st.pc.append(z3.BoolVal(True))   # keep pc/decision lengths aligned
        st.inputs.append(('choice', v, n))
        return v

    def conc_int(s, st, v, what='value'):
        """concretise a symbolic integer by forking over its feasible values (<= ptr_fork, else inconclusive)"""
        if isc(v): return v
        v2 = z3.simplify(v)
        if z3.is_bv_value(v2): return v2.as_long()
        if st.forced:
            x = st.forced.pop()
            if not st.forced: st.forced = None
            st.pc.append(v2 == x); st.decisions.append(x); st.idec.append(x)
            return x
        vals = s.enum_values(st, v2, s.ptr_fork, what)
        for x in vals[1:]:
            n = st.clone(); n.forced = [x] + st.idec[::-1]
            if st.idec:
                del n.decisions[len(n.decisions) - len(st.idec):]
                del n.pc[len(n.pc) - len(st.idec):]
            s.pending.append(n); s.stats['forks'] += 1
        st.pc.append(v2 == vals[0]); st.decisions.append(vals[0]); st.idec.append(vals[0])
        return vals[0]

    def enum_values(s, st, e, limit, what):
        s.stats['enum'] += 1
        vals = []; extra = z3.BoolVal(True)
        while len(vals) <= limit:
            m = s.sol.model(st.pc, extra)
            if m is None: break
            v = m.eval(e, model_completion=True).as_long(); vals.append(v)
            extra = z3.And(extra, e != v)
        if len(vals) > limit:
            # too many values: keep exploring a few of them (a violation found there is still a violation), but the
            # exploration as a whole is no longer complete and cannot be reported as "held"
            s.incomplete.append('symbolic %s has more than %d feasible values in %s' % (what, limit, st.frames[-1].fn if st.frames else '?'))
            lo = s.sol.model(st.pc, z3.ULE(e, z3.BitVecVal(64, e.size())))
            vals = vals[:8]
            if lo is not None:
                v = lo.eval(e, model_completion=True).as_long()
                if v not in vals: vals.append(v)
        if not vals: raise PathEnd()
        return vals

    def sym_addr(s, st, a, n, what):
        a2 = z3.simplify(a)
        if z3.is_bv_value(a2): return a2.as_long()
        if st.forced: return s.conc_int(st, a2, 'address')
        s.stats['symaddr'] += 1
        m = s.sol.model(st.pc)
        if m is None: raise PathEnd()
        v0 = m.eval(a2, model_completion=True).as_long()
        try: al = st.find(v0, n, what)
        except Violation:
            st.pc.append(a2 == v0); raise
        oob = z3.Or(z3.ULT(a2, z3.BitVecVal(al.base, 64)), z3.UGT(a2, z3.BitVecVal(al.base + al.size - n, 64)))
        if s.sol.check(st.pc, oob):
            info = {'msg': '%s of %d bytes through symbolic pointer can leave %s %s [size %d]' % (what, n, al.kind, al.name, al.size), 'kind': 'memory'}
            s.report(st, info, oob, ptr=(a2, al, n))
        st.pc.append(z3.Not(oob))
        return s.conc_int(st, a2, 'address')

    # ---------------- externals
    def next_concrete(s):
        if s.ci_pos < len(s.concrete_inputs):
            v = s.concrete_inputs[s.ci_pos]; s.ci_pos += 1; return v
        s.ci_pos += 1; return 0

    def new_sym(s, st, w):
        if s.concrete_inputs is not None:
            v = mask(s.next_concrete(), w); st.inputs.append(('sym', v, w)); return v
        v = z3.BitVec('i%d_%d' % (len(st.inputs), w), w)
        st.inputs.append(('sym', v, w)); return v

    def install_ext(s):
        E = s.ext
        def malloc(st, args):
            n = s.conc_int(st, args[0], 'allocation size')
            if n > (1 << 31): raise Violation('allocation of %d bytes' % n, 'memory')
            a = st.alloc(n, 'heap'); return a.base
        def free(st, args):
            p = args[0]
            if not isc(p): p = s.conc_int(st, p, 'pointer')
            if p == 0: return None
            a = st.allocs.get(p)
            if a is None or a.kind != 'heap': raise Violation('free of non-heap pointer %#x' % p, 'memory')
            if not a.live: raise Violation('double free %#x' % p, 'memory')
            a = st.wr(a); a.live = False; a.data = None
        for n in ('@_Znwm', '@_Znam', '@malloc'): E[n] = malloc
        E['@_ZnwmRKSt9nothrow_t'] = malloc
        E['@_ZnwmSt11align_val_t'] = malloc
        E['@aligned_alloc'] = lambda st, a: malloc(st, [a[1]])
        for n in ('@_ZdlPv', '@_ZdaPv', '@free', '@_ZdlPvm', '@_ZdlPvSt11align_val_t', '@_ZdlPvmSt11align_val_t'): E[n] = free
        def calloc(st, args):
            return malloc(st, [s.binop('mul', 64, args[0], args[1])])
        E['@calloc'] = calloc
        def memcpy(st, args):
            d, sp, n = s.cp(st, args[0]), s.cp(st, args[1]), s.conc_int(st, args[2], 'memcpy length')
            if n == 0: return d
            sa = st.find(sp, n, 'memcpy-read'); cells = sa.data[sp - sa.base: sp - sa.base + n]
            da = st.find(d, n, 'memcpy-write')
            if da.kind == 'global' and da.name in s.const_globals: raise Violation('memcpy to constant global ' + da.name, 'memory')
            da = st.wr(da); da.data[d - da.base: d - da.base + n] = cells
            return d
        E['@memcpy'] = E['@memmove'] = memcpy
        def memset(st, args):
            d, v, n = s.cp(st, args[0]), args[1], s.conc_int(st, args[2], 'memset length')
            if n == 0: return d
            da = st.wr(st.find(d, n, 'memset'))
            if isc(v): b = v & 255
            else: b = (z3.Extract(7, 0, v) if v.size() > 8 else v, 0)
            o = d - da.base
            for i in range(n): da.data[o + i] = b
            return d
        E['@memset'] = memset
        def memcmp(st, args):
            a, b, n = s.cp(st, args[0]), s.cp(st, args[1]), s.conc_int(st, args[2], 'memcmp length')
            for i in range(n):
                x = s.load(st, a + i, 1); y = s.load(st, b + i, 1)
                if not (isc(x) and isc(y)):
                    if s.fork_bool(st, s.z(x, 8) == s.z(y, 8)): continue
                    lt = s.fork_bool(st, z3.ULT(s.z(x, 8), s.z(y, 8)))
                    return mask(-1, 32) if lt else 1
                if x != y: return mask(-1, 32) if x < y else 1
            return 0
        E['@memcmp'] = E['@bcmp'] = memcmp
        def strlen(st, args):
            p = s.cp(st, args[0]); n = 0
            while True:
                c = s.load(st, p + n, 1)
                if not isc(c):
                    if s.fork_bool(st, c == 0): return n
                elif c == 0: return n
                n += 1
        E['@strlen'] = strlen
        def memchr(st, args):
            p, ch, n = s.cp(st, args[0]), args[1], s.conc_int(st, args[2], 'memchr length')
            for i in range(n):
                c = s.load(st, p + i, 1)
                if isc(c) and isc(ch):
                    if c == (ch & 255): return p + i
                else:
                    cc = z3.Extract(7, 0, s.z(ch, 32)) if not isc(ch) else z3.BitVecVal(ch & 255, 8)
                    if s.fork_bool(st, s.z(c, 8) == cc): return p + i
            return 0
        E['@memchr'] = memchr
        def noreturn(msg):
            def f(st, args): raise Violation(msg, 'abort')
            return f
        for n, msg in (('@_ZSt20__throw_length_errorPKc', 'throw length_error'), ('@_ZSt19__throw_logic_errorPKc', 'throw logic_error'),
                       ('@_ZSt24__throw_out_of_range_fmtPKcz', 'throw out_of_range'), ('@_ZSt28__throw_bad_array_new_lengthv', 'throw bad_array_new_length'),
                       ('@_ZSt17__throw_bad_allocv', 'throw bad_alloc'), ('@abort', 'abort'), ('@__assert_fail', 'assert failed'),
                       ('@_ZSt25__throw_bad_function_callv', 'throw bad_function_call'), ('@_ZSt20__throw_out_of_rangePKc', 'throw out_of_range'),
                       ('@_ZSt27__throw_bad_optional_accessv', 'throw bad_optional_access'), ('@_ZSt9terminatev', 'std::terminate'),
                       ('@_ZSt21__throw_bad_variant_accessPKc', 'throw bad_variant_access'), ('@_ZSt21__throw_bad_variant_accessb', 'throw bad_variant_access'),
                       ('@_ZN5boost15throw_exceptionERKSt9exception', 'boost::throw_exception'), ('@__cxa_pure_virtual', 'pure virtual call'),
                       ('@_ZN5boost15throw_exceptionERKSt9exceptionRKNS_15source_locationE', 'boost::throw_exception'),
                       ('@__cxa_throw', 'throw'), ('@__cxa_allocate_exception', 'throw'), ('@_ZSt20__throw_system_errori', 'throw system_error'),
                       ('@__stack_chk_fail', 'stack check fail'), ('@exit', 'exit')):
            E[n] = noreturn(msg)
        def ctype(pred_c, pred_z):
            def f(st, args):
                c = args[0]
                if isc(c): return 1 if pred_c(sgn(c, 32)) else 0
                return 1 if s.fork_bool(st, pred_z(c)) else 0
            return f
        def rng(c, lo, hi): return z3.And(z3.UGE(c, z3.BitVecVal(lo, 32)), z3.ULE(c, z3.BitVecVal(hi, 32)))
        E['@isspace'] = ctype(lambda c: c == 32 or 9 <= c <= 13, lambda c: z3.Or(c == 32, rng(c, 9, 13)))
        E['@isdigit'] = ctype(lambda c: 48 <= c <= 57, lambda c: rng(c, 48, 57))
        E['@isupper'] = ctype(lambda c: 65 <= c <= 90, lambda c: rng(c, 65, 90))
        E['@islower'] = ctype(lambda c: 97 <= c <= 122, lambda c: rng(c, 97, 122))
        E['@isalpha'] = ctype(lambda c: 65 <= c <= 90 or 97 <= c <= 122, lambda c: z3.Or(rng(c, 65, 90), rng(c, 97, 122)))
        E['@isalnum'] = ctype(lambda c: 48 <= c <= 57 or 65 <= c <= 90 or 97 <= c <= 122, lambda c: z3.Or(rng(c, 48, 57), rng(c, 65, 90), rng(c, 97, 122)))
        E['@isxdigit'] = ctype(lambda c: 48 <= c <= 57 or 65 <= c <= 70 or 97 <= c <= 102, lambda c: z3.Or(rng(c, 48, 57), rng(c, 65, 70), rng(c, 97, 102)))
        E['@isprint'] = ctype(lambda c: 32 <= c <= 126, lambda c: rng(c, 32, 126))
        E['@isgraph'] = ctype(lambda c: 33 <= c <= 126, lambda c: rng(c, 33, 126))
        E['@iscntrl'] = ctype(lambda c: 0 <= c <= 31 or c == 127, lambda c: z3.Or(rng(c, 0, 31), c == 127))
        E['@isblank'] = ctype(lambda c: c == 32 or c == 9, lambda c: z3.Or(c == 32, c == 9))
        E['@ispunct'] = ctype(lambda c: 33 <= c <= 47 or 58 <= c <= 64 or 91 <= c <= 96 or 123 <= c <= 126, lambda c: z3.Or(rng(c, 33, 47), rng(c, 58, 64), rng(c, 91, 96), rng(c, 123, 126)))
        def tolower(st, args):
            c = args[0]
            if isc(c): return c + 32 if 65 <= c <= 90 else c
            return z3.If(rng(c, 65, 90), c + 32, c)
        def toupper(st, args):
            c = args[0]
            if isc(c): return c - 32 if 97 <= c <= 122 else c
            return z3.If(rng(c, 97, 122), c - 32, c)
        E['@tolower'] = tolower; E['@toupper'] = toupper
        E['@__cxa_atexit'] = lambda st, a: 0
        E['@__cxa_guard_acquire'] = lambda st, a: s.guard_acquire(st, a)
        E['@__cxa_guard_release'] = lambda st, a: s.store(st, a[0], 1, 1)
        E['@__cxa_guard_abort'] = lambda st, a: None
        E['@_ZNSt9exceptionD2Ev'] = lambda st, a: None
        E['@_ZNSt8ios_base4InitC1Ev'] = lambda st, a: None
        E['@_ZNSt8ios_base4InitD1Ev'] = lambda st, a: None
        def clock(st, args):
            g = s.gaddr.get('@vk_now_ms')
            if g is not None:          # harness-controlled virtual clock (shadow/vk_world.hpp)
                return s.binop('mul', 64, s.load(st, g, 8), 1000000)
            # arbitrary non-decreasing instant (nanoseconds since epoch, signed 64-bit, kept below 2^62)
            v = s.new_sym(st, 64)
            if not isc(v):
                st.pc.append(z3.ULT(v, z3.BitVecVal(1 << 62, 64)))
                if st.clock is not None: st.pc.append(z3.UGE(v, st.clock))
            else:
                v &= (1 << 62) - 1
                if st.clock is not None and v < st.clock: v = st.clock
            st.clock = v
            return v
        E['@_ZNSt6chrono3_V212system_clock3nowEv'] = clock
        E['@_ZNSt6chrono3_V212steady_clock3nowEv'] = clock
        def time_(st, a):
            g = s.gaddr.get('@vk_time_fixed')
            return s.load(st, g, 8) if g is not None else s.new_sym(st, 64)
        E['@time'] = time_
        # harness API
        def sym(w):
            def f(st, args): return s.new_sym(st, w)
            return f
        E['@vk_sym_u8'] = sym(8); E['@vk_sym_u16'] = sym(16); E['@vk_sym_u32'] = sym(32); E['@vk_sym_u64'] = sym(64)
        def make_symbolic(st, args):
            p, n = s.cp(st, args[0]), s.conc_int(st, args[1])
            if n == 0: return
            a = st.wr(st.find(p, n, 'make_symbolic'))
            for i in range(n):
                v = s.new_sym(st, 8)
                a.data[p - a.base + i] = v if isc(v) else (v, 0)
        E['@vk_make_symbolic'] = make_symbolic
        def assume(st, args):
            c = args[0]
            if isc(c):
                if not c: raise PathEnd()
                return
            cond = s.zb(c) if (z3.is_bool(c) or c.size() == 1) else (c != 0)
            if st.forced is None:
                if not s.sol.check(st.pc, cond): raise PathEnd()
            st.pc.append(cond)
        E['@vk_assume'] = assume
        def vassert(st, args):
            c = args[0]
            if isc(c):
                if not c: raise Violation('vk_assert failed: ' + s.cstr(st, args[1]))
                s.stats['asserts_concrete'] += 1
                return
            good = z3.simplify(s.zb(c) if (z3.is_bool(c) or c.size() == 1) else (c != 0))
            if z3.is_true(good): s.stats['asserts_trivial'] += 1; return
            if st.forced: st.pc.append(good); return     # already decided when this prefix was first explored
            bad = z3.Not(good)
            s.stats['asserts_symbolic'] += 1
            if s.sol.check(st.pc, bad):
                # report with a model of path /\ not(assertion); the path itself continues under the assertion
                s.report(st, {'msg': 'vk_assert failed: ' + s.cstr(st, args[1]), 'kind': 'assert'}, bad)
                if not s.sol.check(st.pc, good): raise PathEnd()
            st.pc.append(good)
        E['@vk_assert'] = vassert
        def event(st, args):
            st.events.append((args[0], args[1]))
        E['@vk_event'] = event
        def reach(st, args):
            lbl = s.cstr(st, args[0])
            st.events.append(('reach', lbl))
        E['@vk_reach'] = reach
        E['@vk_choose'] = lambda st, a: s.choose(st, s.conc_int(st, a[0]))
        E['@vk_is_symbolic'] = lambda st, a: 0 if isc(a[0]) else 1
        def vk_concretize(st, args):
            return s.conc_int(st, args[0], 'vk_concretize')
        E['@vk_concretize'] = vk_concretize
        def vk_note(st, args):
            st.events.append(('note', s.cstr(st, args[0])))
        E['@vk_note'] = vk_note
        def vk_check_range(st, args):
            # assert that [p, p+n) lies inside one live allocation (used by harness monitors on library-produced ranges)
            p, n = s.cp(st, args[0]), s.conc_int(st, args[1])
            if n: st.find(p, n, 'range-check')
        E['@vk_check_range'] = vk_check_range

    def guard_acquire(s, st, a):
        g = s.load(st, a[0], 1)
        return 0 if g else 1

    def cstr(s, st, p):
        if not isc(p): p = s.conc_int(st, p, 'string pointer')
        out = []
        while True:
            c = s.load(st, p, 1)
            if not isc(c) or c == 0: break
            out.append(chr(c)); p += 1
        return ''.join(out)

    def cp(s, st, p): return p if isc(p) else s.sym_addr(st, p, 1, 'access')

    # ---------------- decoding
    def decode(s, nm):
        d = s.decoded.get(nm)
        if d is not None: return d
        f = s.m.funcs[nm]
        blocks = collections.OrderedDict(); pend = None
        cnt = sum(1 for (t, pn, info) in f.params if pn is not None and re.fullmatch(r'%\d+', pn))
        cur = str(cnt); blocks[cur] = []
        for ln in f.body:
            st = ln.strip()
            if not st or st.startswith(';'): continue
            m = re.match(r'^([-a-zA-Z$._0-9]+|"(?:[^"\\]|\\.)*"):', ln)
            if m: cur = m.group(1); blocks[cur] = []; continue
            if pend is not None:
                pend += ' ' + st
                if st == ']': blocks[cur].append(pend); pend = None
                continue
            if st.startswith('switch ') and st.endswith('['): pend = st; continue
            st = re.sub(r'(, !\w+ !\d+)+$', '', st)
            st = re.sub(r', !\w+ !\{[^}]*\}$', '', st)
            blocks[cur].append(st)
        dec = {}
        for b, insns in blocks.items():
            try: dec[b] = [s.decode_insn(i) for i in insns]
            except Err as e: raise Err('%s (in %s)' % (e, nm))
        s.decoded[nm] = (f, dec, str(cnt))
        return s.decoded[nm]

    def operand(s, p, ty):
        k, v = p.peek()
        if k == 'lid': p.next(); return ('r', v)
        c = s.m.const(p, ty)
        rt = s.L.res(ty)
        if isinstance(rt, (TStruct, TArr)):
            return ('k', s.aggconst(ty, c))
        if isinstance(rt, TFloat):
            return ('k', 0)
        return ('k', s.cval(ty, c))

    def aggconst(s, ty, c):
        n = s.L.size(ty); a = Alloc(0, n, 'tmp', '', 0)
        s.write_const(a, 0, ty, c)
        v = 0
        for i, b in enumerate(a.data): v |= b << (8 * i)
        return v

    def decode_insn(s, st):
        m = re.match(r'^(%(?:[-a-zA-Z$._0-9]+|"(?:[^"\\]|\\.)*")) = (.*)$', st)
        dst = None
        if m: dst, st = m.group(1), m.group(2)
        p = P(tokenize(st)); op = p.next()[1]
        if op in ('tail', 'musttail', 'notail'): op = p.next()[1]
        L = s.L
        if op == 'phi':
            ty = p.type(); inc = {}
            while True:
                p.expect('['); v = s.operand(p, ty); p.expect(','); lb = p.next()[1][1:]; p.expect(']'); inc[lb] = v
                if not p.accept(','): break
            return ('phi', dst, inc)
        if op in ('add', 'sub', 'mul', 'udiv', 'sdiv', 'urem', 'srem', 'shl', 'lshr', 'ashr', 'and', 'or', 'xor'):
            while p.peek()[1] in ('nuw', 'nsw', 'exact'): p.next()
            ty = p.type(); a = s.operand(p, ty); p.expect(','); b = s.operand(p, ty)
            return ('bin', dst, op, L.res(ty).w, a, b)
        if op == 'icmp':
            pred = p.next()[1]; ty = p.type(); a = s.operand(p, ty); p.expect(','); b = s.operand(p, ty)
            rt = L.res(ty)
            return ('icmp', dst, pred, rt.w if isinstance(rt, TInt) else 64, a, b)
        if op == 'select':
            ct = p.type(); c = s.operand(p, ct); p.expect(','); t1 = p.type(); a = s.operand(p, t1); p.expect(','); t2 = p.type(); b = s.operand(p, t2)
            rt = L.res(t1)
            return ('select', dst, c, a, b, rt.w if isinstance(rt, TInt) else 8 * L.size(rt))
        if op in ('zext', 'trunc', 'bitcast', 'ptrtoint', 'inttoptr', 'sext', 'freeze'):
            ft = p.type(); a = s.operand(p, ft)
            if op == 'freeze': return ('cast', dst, 'bitcast', 0, 0, a)
            p.expect('to'); tt = p.type()
            fw = L.res(ft).w if isinstance(L.res(ft), TInt) else 64
            tw = L.res(tt).w if isinstance(L.res(tt), TInt) else 64
            return ('cast', dst, op, fw, tw, a)
        if op == 'getelementptr':
            p.accept('inbounds'); bt = p.type(); p.expect(','); pt = p.type(); base = s.operand(p, pt); idx = []
            while p.accept(','):
                it = p.type(); idx.append((it, s.operand(p, it)))
            # pre-compute constant offsets: list of ('c', off) / ('v', operand, idxwidth, scale)
            steps = []; cur = bt; coff = 0
            it0, i0 = idx[0]
            if i0[0] == 'k': coff += sgn(i0[1], L.res(it0).w) * L.size(cur)
            else: steps.append((i0, L.res(it0).w, L.size(cur)))
            for it, io in idx[1:]:
                r = L.res(cur)
                if isinstance(r, TStruct):
                    coff += L.field_off(r, io[1]); cur = r.els[io[1]]
                else:
                    if io[0] == 'k': coff += sgn(io[1], L.res(it).w) * L.size(r.el)
                    else: steps.append((io, L.res(it).w, L.size(r.el)))
                    cur = r.el
            return ('gep', dst, base, coff & 0xFFFFFFFFFFFFFFFF, steps)
        if op == 'load':
            p.accept('atomic'); p.accept('volatile'); ty = p.type(); p.expect(','); pt = p.type(); a = s.operand(p, pt)
            rt = L.res(ty)
            return ('load', dst, (rt.w + 7) // 8 if isinstance(rt, TInt) else L.size(ty), rt.w if isinstance(rt, TInt) else 0, a)
        if op == 'store':
            p.accept('atomic'); p.accept('volatile'); ty = p.type(); v = s.operand(p, ty); p.expect(','); pt = p.type(); a = s.operand(p, pt)
            rt = L.res(ty)
            return ('store', (rt.w + 7) // 8 if isinstance(rt, TInt) else L.size(ty), ty, v, a)
        if op == 'alloca':
            ty = p.type()
            if p.accept(',') and p.peek()[1] != 'align': raise Err('dynamic alloca')
            return ('alloca', dst, L.size(ty))
        if op == 'br':
            if p.accept('label'): return ('jmp', p.next()[1][1:])
            ct = p.type(); c = s.operand(p, ct); p.expect(','); p.expect('label'); t1 = p.next()[1][1:]; p.expect(','); p.expect('label'); t2 = p.next()[1][1:]
            return ('br', c, t1, t2)
        if op == 'switch':
            ty = p.type(); v = s.operand(p, ty); p.expect(','); p.expect('label'); d = p.next()[1][1:]; p.expect('['); cases = []
            while not p.accept(']'):
                ct = p.type(); cv = s.m.const(p, ct); p.expect(','); p.expect('label'); cases.append((mask(cv[1], L.res(ct).w), p.next()[1][1:]))
            return ('switch', v, L.res(ty).w, cases, d)
        if op == 'ret':
            ty = p.type()
            if isinstance(ty, TVoid): return ('ret', None)
            return ('ret', s.operand(p, ty))
        if op == 'unreachable': return ('unreachable',)
        if op == 'extractvalue':
            ty = p.type(); a = s.operand(p, ty); cur = ty; off = 0
            while p.accept(','):
                k = int(p.next()[1]); r = L.res(cur)
                if isinstance(r, TStruct): off += L.field_off(r, k); cur = r.els[k]
                else: off += k * L.size(r.el); cur = r.el
            rc = L.res(cur)
            return ('extractvalue', dst, a, off, L.size(cur), L.size(ty), rc.w if isinstance(rc, TInt) else 0)
        if op == 'insertvalue':
            ty = p.type(); a = s.operand(p, ty); p.expect(','); et = p.type(); ev = s.operand(p, et); cur = ty; off = 0
            while p.accept(','):
                k = int(p.next()[1]); r = L.res(cur)
                if isinstance(r, TStruct): off += L.field_off(r, k); cur = r.els[k]
                else: off += k * L.size(r.el); cur = r.el
            return ('insertvalue', dst, a, ev, off, L.size(cur), L.size(ty))
        if op == 'call':
            if any(('@' + x) in st for x in ('llvm.lifetime.', 'llvm.experimental.noalias.scope.decl', 'llvm.dbg.')): return ('nop',)
            while True:
                k, v = p.peek()
                if k == 'word' and v in ('fastcc', 'ccc', 'coldcc', 'noundef', 'nonnull', 'zeroext', 'signext', 'noalias', 'inreg'): p.next()
                elif k == 'word' and v in PARAM_ATTRS_ARG:
                    p.next()
                    if p.accept('('): p.next(); p.expect(')')
                    elif p.peek()[0] == 'num': p.next()
                else: break
            rt = p.type()
            if isinstance(rt, TFunc): rt = rt.ret
            k, v = p.next(); p.expect('('); args = []
            if k == 'word': raise Err('call through constant expression')
            if not p.accept(')'):
                while True:
                    t = p.type(); skip_param_attrs(p); args.append(s.operand(p, t))
                    if p.accept(')'): break
                    p.expect(',')
            rr = L.res(rt)
            rw = rr.w if isinstance(rr, TInt) else 64
            callee = v
            if k == 'gid' and not v.startswith('@llvm.'): callee = s.m.aliases.get(v, v)
            return ('call', dst, k == 'gid', callee, args, rw)
        if op == 'fence': return ('nop',)
        if op == 'atomicrmw':
            p.accept('volatile'); rop = p.next()[1]; pt = p.type(); a = s.operand(p, pt); p.expect(','); ty = p.type(); v = s.operand(p, ty)
            return ('atomicrmw', dst, rop, L.size(ty), L.res(ty).w, a, v)
        if op == 'cmpxchg':
            p.accept('weak'); p.accept('volatile'); pt = p.type(); a = s.operand(p, pt); p.expect(','); ty = p.type(); c = s.operand(p, ty); p.expect(','); ty2 = p.type(); n = s.operand(p, ty2)
            return ('cmpxchg', dst, L.size(ty), a, c, n)
        raise Err('unsupported instruction ' + op)

    # ---------------- execution
    def push_call(s, st, nm, args, dst):
        f, dec, entry = s.decode(nm)
        s.called.add(nm)
        fr = Frame(); fr.fn = nm; fr.regs = {}; fr.blk = entry; fr.idx = 0; fr.prev = None; fr.nalloca = 0; fr.sp0 = st.sp; fr.dst = dst; fr.code = dec
        i = 0; regs = fr.regs
        for (t, pn, info) in f.params:
            if pn is not None: regs[pn] = args[i]
            i += 1
        st.frames.append(fr)
        if len(st.frames) > 400: raise Inconclusive('call depth > 400')

    def start_state(s, entry):
        st = State()
        s.init_globals(st)
        gc = s.m.globals.get('@llvm.global_ctors')
        ctors = []
        if gc is not None and gc.init and gc.init[0] == 'array':
            for t, e in gc.init[1]:
                fn = e[1][1][1]
                if fn[0] == 'gref': ctors.append(fn[1])
        s.push_call(st, '@' + entry, [], '__top__')
        for c in reversed(ctors): s.push_call(st, c, [], '__top__')
        return st

    def explore(s, entry, timeout=600, max_paths=10**9, prefix=None, frontier=None, on_path=None, stop_on_violation=None):
        """explore all paths of `entry`.
        prefix: list of decisions to replay first (worker mode).  frontier: if set, stop once that many pending states
        exist and return their decision lists (splitter mode).  on_path(st, kind, info) is called for every finished path."""
        t0 = time.time(); s.deadline = t0 + timeout; s.tick = 0; s.path_grace = getattr(s, 'path_grace', 150.0)
        st = s.start_state(entry)
        if prefix: st.forced = list(reversed(prefix))
        s.pending = [st]; s.paths = 0; s.violations = []; s.pruned = 0; s.nviol = 0; s.incomplete = []; s.preempted = False
        s.viol_count = collections.Counter(); s.keep_per_msg = 2
        status = 'done'
        while s.pending:
            if time.time() - t0 > timeout: status = 'timeout'; break
            if s.paths >= max_paths: status = 'maxpaths'; break
            if frontier is not None and len(s.pending) >= frontier: status = 'frontier'; break
            st = s.pending.pop()
            try:
                s.exec_path(st)
                s.paths += 1
                if on_path: on_path(st, 'ok', None)
            except SliceEnd:
                # the time slice ended in the middle of a path: hand the path back as a decision prefix (it is re-executed from the start)
                rs = State.__new__(State); rs.decisions = list(st.decisions); rs.forced = None; s.pending.append(rs); status = 'timeout'; s.preempted = True; break
            except PathEnd:
                s.pruned += 1
                if on_path and not st.forced: on_path(st, 'pruned', None)     # its prefix was feasible: reachability witnesses on it count
                if st.forced: raise Err('path ended while replaying a forced decision prefix')
            except Violation as v:
                s.paths += 1
                s.report(st, {'msg': str(v), 'kind': v.kind, 'obj': v.obj}, None)
                if on_path: on_path(st, 'violation', None)
                if stop_on_violation is not None and len(s.violations) >= stop_on_violation: status = 'stopped'; break
        return status

    def report(s, st, info, extra, ptr=None):
        """record a violation together with concrete inputs (a model of the path condition) and the monitor log"""
        s.nviol = getattr(s, 'nviol', 0) + 1
        key = re.sub(r'\d+', '#', info['msg'])
        s.viol_count[key] += 1
        if s.viol_count[key] > s.keep_per_msg: return
        info = dict(info); info['key'] = key; info['where'] = [f.fn for f in st.frames[-8:]]
        info['inputs'] = s.model_inputs(st, extra)
        info['events'] = s.eval_events(st) if info['inputs'] is not None else None
        if ptr is not None and info['inputs'] is not None and s.concrete_inputs is None:
            a2, al, n = ptr; v = s.last_model.eval(a2, model_completion=True).as_long()
            info['obj'] = (al.kind, al.name, al.size, sgn((v - al.base) & 0xFFFFFFFFFFFFFFFF, 64), n)
        info['decisions'] = len(st.decisions)
        s.violations.append(info)

    def exec_path(s, st):
        stats = s.stats; max_insns = s.max_insns
        val = s.val
        frames = st.frames
        while frames:
            fr = frames[-1]
            dec = fr.code
            blk = dec[fr.blk]; regs = fr.regs
            n_exec = 0
            while True:
                ins = blk[fr.idx]
                n_exec += 1
                k = ins[0]
                if k == 'load':
                    o = ins[4]; a = regs[o[1]] if o[0] == 'r' else o[1]
                    if type(a) is not int: st.idec = []; a = s.sym_addr(st, a, ins[2], 'load')
                    v = s.load(st, a, ins[2])
                    if ins[3] == 1 and type(v) is not int: v = z3.Extract(0, 0, v) == 1
                    elif ins[3] == 1: v &= 1
                    regs[ins[1]] = v; fr.idx += 1
                elif k == 'gep':
                    o = ins[2]; base = regs[o[1]] if o[0] == 'r' else o[1]
                    off = ins[3]
                    if ins[4]:
                        for io, w, sz in ins[4]:
                            off = s.add64(off, s.mul_idx(regs[io[1]], w, sz))
                    regs[ins[1]] = (base + off) & 0xFFFFFFFFFFFFFFFF if type(base) is int and type(off) is int else s.add64(base, off)
                    fr.idx += 1
                elif k == 'store':
                    o = ins[4]; a = regs[o[1]] if o[0] == 'r' else o[1]
                    if type(a) is not int: st.idec = []; a = s.sym_addr(st, a, ins[1], 'store')
                    o = ins[3]
                    s.store(st, a, ins[1], regs[o[1]] if o[0] == 'r' else o[1]); fr.idx += 1
                elif k == 'bin':
                    o = ins[4]; a = regs[o[1]] if o[0] == 'r' else o[1]
                    o = ins[5]; b = regs[o[1]] if o[0] == 'r' else o[1]
                    regs[ins[1]] = s.binop(ins[2], ins[3], a, b); fr.idx += 1
                elif k == 'icmp':
                    o = ins[4]; a = regs[o[1]] if o[0] == 'r' else o[1]
                    o = ins[5]; b = regs[o[1]] if o[0] == 'r' else o[1]
                    regs[ins[1]] = s.icmp(ins[2], ins[3], a, b); fr.idx += 1
                elif k == 'br':
                    o = ins[1]; c = regs[o[1]] if o[0] == 'r' else o[1]
                    if type(c) is int: tgt = ins[2] if c else ins[3]
                    else:
                        stats['symbr'] += 1; st.idec = []
                        tgt = ins[2] if s.fork_bool(st, s.zb(c)) else ins[3]
                    fr.prev = fr.blk; fr.blk = tgt; s.do_phis(fr, dec); break
                elif k == 'jmp':
                    fr.prev = fr.blk; fr.blk = ins[1]; s.do_phis(fr, dec); break
                elif k == 'cast':
                    o = ins[5]; v = regs[o[1]] if o[0] == 'r' else o[1]
                    op = ins[2]; fw, tw = ins[3], ins[4]
                    if type(v) is int:
                        if op == 'sext': v = mask(sgn(v, fw), tw)
                        elif op == 'trunc' or (tw < fw and op != 'bitcast'): v = mask(v, tw)
                    else:
                        if op == 'zext': v = s.z(v, tw) if z3.is_bool(v) else z3.ZeroExt(tw - fw, v)
                        elif op == 'sext':
                            v = z3.If(v, z3.BitVecVal(mask(-1, tw), tw), z3.BitVecVal(0, tw)) if z3.is_bool(v) else z3.SignExt(tw - fw, v)
                        elif op == 'trunc':
                            v = (z3.Extract(0, 0, v) == 1) if tw == 1 else z3.Extract(tw - 1, 0, v)
                        elif op in ('ptrtoint', 'inttoptr') and fw != tw:
                            v = z3.ZeroExt(tw - fw, v) if tw > fw else z3.Extract(tw - 1, 0, v)
                    regs[ins[1]] = v; fr.idx += 1
                elif k == 'call':
                    fr.idx += 1     # return address; externals that fork re-execute via idx-1 (see reexec)
                    if s.do_call(st, fr, ins): break
                elif k == 'ret':
                    o = ins[1]
                    v = (regs[o[1]] if o[0] == 'r' else o[1]) if o is not None else None
                    if fr.nalloca:
                        del st.stack[len(st.stack) - fr.nalloca:]
                    st.sp = fr.sp0
                    frames.pop()
                    if frames and fr.dst != '__top__' and fr.dst is not None: frames[-1].regs[fr.dst] = v
                    break
                elif k == 'select':
                    o = ins[2]; c = regs[o[1]] if o[0] == 'r' else o[1]
                    o = ins[3]; a = regs[o[1]] if o[0] == 'r' else o[1]
                    o = ins[4]; b = regs[o[1]] if o[0] == 'r' else o[1]
                    if type(c) is int: regs[ins[1]] = a if c else b
                    elif type(a) is int and type(b) is int and a == b: regs[ins[1]] = a
                    elif ins[5] == 1: regs[ins[1]] = z3.If(s.zb(c), s.zb(a), s.zb(b))
                    else: regs[ins[1]] = z3.If(s.zb(c), s.z(a, ins[5]), s.z(b, ins[5]))
                    fr.idx += 1
                elif k == 'switch':
                    o = ins[1]; v = regs[o[1]] if o[0] == 'r' else o[1]
                    tgt = ins[4]
                    if type(v) is int:
                        for cv, l in ins[3]:
                            if cv == v: tgt = l; break
                    else:
                        stats['symsw'] += 1; st.idec = []
                        v = s.z(v, ins[2])
                        for cv, l in ins[3]:
                            if s.fork_bool(st, v == cv): tgt = l; break
                    fr.prev = fr.blk; fr.blk = tgt; s.do_phis(fr, dec); break
                elif k == 'alloca':
                    a = st.alloca(ins[2], fr.fn); fr.nalloca += 1; regs[ins[1]] = a.base; fr.idx += 1
                elif k == 'nop': fr.idx += 1
                elif k == 'extractvalue':
                    a = val(fr, ins[2]); off, sz = ins[3], ins[4]
                    if type(a) is int: v = (a >> (8 * off)) & ((1 << (8 * sz)) - 1)
                    else: v = z3.Extract(8 * (off + sz) - 1, 8 * off, a)
                    if ins[6] and ins[6] < 8 * sz:
                        if type(v) is int: v = mask(v, ins[6])
                        else: v = (z3.Extract(0, 0, v) == 1) if ins[6] == 1 else z3.Extract(ins[6] - 1, 0, v)
                    regs[ins[1]] = v; fr.idx += 1
                elif k == 'insertvalue':
                    a = val(fr, ins[2]); e = val(fr, ins[3]); off, sz, tot = ins[4], ins[5], ins[6]
                    if type(a) is int and type(e) is int:
                        m_ = ((1 << (8 * sz)) - 1) << (8 * off); regs[ins[1]] = (a & ~m_) | ((e << (8 * off)) & m_)
                    else:
                        A = s.z(a, 8 * tot)
                        if type(e) is int: Ev = z3.BitVecVal(e, 8 * sz)
                        elif z3.is_bool(e): Ev = s.z(e, 8 * sz)
                        else: Ev = z3.ZeroExt(8 * sz - e.size(), e) if e.size() < 8 * sz else e
                        parts = []
                        if off + sz < tot: parts.append(z3.Extract(8 * tot - 1, 8 * (off + sz), A))
                        parts.append(Ev)
                        if off > 0: parts.append(z3.Extract(8 * off - 1, 0, A))
                        regs[ins[1]] = z3.Concat(*parts) if len(parts) > 1 else parts[0]
                    fr.idx += 1
                elif k == 'atomicrmw':
                    a = s.cp(st, val(fr, ins[5])); old = s.load(st, a, ins[3]); v = val(fr, ins[6])
                    new = v if ins[2] == 'xchg' else s.binop(ins[2], ins[4], old, v)
                    s.store(st, a, ins[3], new); regs[ins[1]] = old; fr.idx += 1
                elif k == 'cmpxchg':
                    a = s.cp(st, val(fr, ins[3])); old = s.load(st, a, ins[2]); c = val(fr, ins[4]); n = val(fr, ins[5])
                    if not (type(old) is int and type(c) is int): raise Inconclusive('symbolic cmpxchg')
                    ok = int(old == c)
                    if ok: s.store(st, a, ins[2], n)
                    regs[ins[1]] = old | (ok << (8 * ins[2])); fr.idx += 1
                elif k == 'unreachable': raise Violation('reached unreachable in ' + fr.fn, 'abort')
                else: raise Err('exec ' + k)
            st.insns += n_exec; stats['insn'] += n_exec
            s.tick += 1
            if s.tick & 0x3FF == 0 and time.time() > s.deadline + s.path_grace and not st.forced: raise SliceEnd()
            if st.insns > max_insns: raise Violation('instruction budget of %d exceeded on one path (possible non-termination)' % max_insns, 'hang')

    def val(s, fr, o):
        return fr.regs[o[1]] if o[0] == 'r' else o[1]

    def do_phis(s, fr, dec):
        blk = dec[fr.blk]
        ins = blk[0]
        if ins[0] != 'phi': fr.idx = 0; return
        vals = []; prev = fr.prev; regs = fr.regs
        for ins in blk:
            if ins[0] != 'phi': break
            o = ins[2][prev]
            vals.append((ins[1], regs[o[1]] if o[0] == 'r' else o[1]))
        for d, v in vals: regs[d] = v
        fr.idx = len(vals)

    def do_call(s, st, fr, ins):
        _, dst, direct, callee, aops, rw = ins
        regs = fr.regs
        if direct:
            nm = callee
            if nm.startswith('@llvm.'):
                s.intrinsic(st, fr, nm, dst, [regs[o[1]] if o[0] == 'r' else o[1] for o in aops], rw)
                return False
        else:
            fp = regs[callee]
            if type(fp) is not int:
                st.idec = []; fr.idx -= 1
                fp = s.conc_int(st, fp, 'function pointer'); fr.idx += 1
            nm = s.addrf.get(fp)
            if nm is None: raise Violation('indirect call to non-function %#x' % fp, 'memory')
        f = s.m.funcs.get(nm)
        a = [regs[o[1]] if o[0] == 'r' else o[1] for o in aops]
        if f is None or f.body is None:
            h = s.ext.get(nm)
            if h is None: raise Err('no model for external ' + nm)
            st.idec = []; fr.idx -= 1      # a fork inside the handler clones the state positioned on this call
            r = h(st, a)
            fr.idx += 1
            if dst is not None:
                if rw == 1 and type(r) is int: r &= 1
                regs[dst] = r
            return False
        s.push_call(st, nm, a, dst)
        return True

    def intrinsic(s, st, fr, nm, dst, A, rw):
        n = nm[6:]
        if n.startswith('memcpy.') or n.startswith('memmove.'):
            st.idec = []; fr.idx -= 1; s.ext['@memcpy'](st, [A[0], A[1], A[2]]); fr.idx += 1
        elif n.startswith('memset.'):
            st.idec = []; fr.idx -= 1; s.ext['@memset'](st, [A[0], A[1], A[2]]); fr.idx += 1
        elif n == 'assume':
            if type(A[0]) is int:
                if not A[0]: raise Violation('llvm.assume violated', 'abort')
        elif n == 'trap': raise Violation('llvm.trap', 'abort')
        elif n.startswith('bswap.'):
            w = rw; v = A[0]
            if type(v) is int: fr.regs[dst] = int.from_bytes(v.to_bytes(w // 8, 'little'), 'big')
            else: fr.regs[dst] = z3.Concat(*[z3.Extract(8 * i + 7, 8 * i, v) for i in range(w // 8)])
        elif n.startswith(('umax.', 'umin.', 'smax.', 'smin.')):
            o = n[:4]; a, b = A
            pred = {'umax': 'ugt', 'umin': 'ult', 'smax': 'sgt', 'smin': 'slt'}[o]
            c = s.icmp(pred, rw, a, b)
            fr.regs[dst] = (a if c else b) if type(c) is int else z3.If(c, s.z(a, rw), s.z(b, rw))
        elif n.startswith(('usub.sat.', 'uadd.sat.')):
            a, b = A; w = rw
            if type(a) is int and type(b) is int:
                fr.regs[dst] = max(a - b, 0) if n.startswith('usub') else min(a + b, (1 << w) - 1)
            else:
                a, b = s.z(a, w), s.z(b, w)
                fr.regs[dst] = z3.If(z3.ULT(a, b), z3.BitVecVal(0, w), a - b) if n.startswith('usub') else z3.If(z3.ULT(a + b, a), z3.BitVecVal((1 << w) - 1, w), a + b)
        elif n.startswith('abs.'):
            a = A[0]
            if type(a) is int: fr.regs[dst] = mask(abs(sgn(a, rw)), rw)
            else: fr.regs[dst] = z3.If(a < 0, -a, a)
        elif n.startswith(('ctlz.', 'cttz.', 'ctpop.')):
            a = A[0]
            if type(a) is not int: raise Inconclusive('symbolic ' + n)
            if n.startswith('ctlz.'): fr.regs[dst] = rw - a.bit_length()
            elif n.startswith('cttz.'): fr.regs[dst] = rw if a == 0 else (a & -a).bit_length() - 1
            else: fr.regs[dst] = bin(a).count('1')
        elif n.startswith(('uadd.with.overflow', 'usub.with.overflow', 'umul.with.overflow', 'sadd.with.overflow', 'ssub.with.overflow', 'smul.with.overflow')):
            o = n[:4]; a, b = A
            w = int(re.search(r'\.i(\d+)$', n).group(1)); bsz = s.L.size(TInt(w))
            if type(a) is int and type(b) is int:
                if o[0] == 'u':
                    r = {'uadd': a + b, 'usub': a - b, 'umul': a * b}[o]; ov = int(r < 0 or r >> w != 0)
                else:
                    x, y = sgn(a, w), sgn(b, w); r = {'sadd': x + y, 'ssub': x - y, 'smul': x * y}[o]; ov = int(not (-(1 << (w - 1)) <= r < (1 << (w - 1))))
                fr.regs[dst] = mask(r, w) | (ov << (8 * bsz))
            else:
                a, b = s.z(a, w), s.z(b, w); W = 2 * w
                ext = z3.ZeroExt if o[0] == 'u' else z3.SignExt
                x, y = ext(w, a), ext(w, b)
                r = {'add': x + y, 'sub': x - y, 'mul': x * y}[o[1:]]
                lo = z3.Extract(w - 1, 0, r)
                ov = ext(w, lo) != r
                fr.regs[dst] = z3.Concat(z3.If(ov, z3.BitVecVal(1, 8), z3.BitVecVal(0, 8)), z3.ZeroExt(8 * bsz - w, lo) if 8 * bsz > w else lo)
        elif n.startswith(('fshl.', 'fshr.')):
            a, b, c = A
            if not (type(a) is int and type(b) is int and type(c) is int): raise Inconclusive('symbolic ' + n)
            w = rw; c %= w; x = (a << w) | b
            fr.regs[dst] = mask(x >> (w - c), w) if n.startswith('fshl.') else mask(x >> c, w)
        elif n.startswith('expect.'): fr.regs[dst] = A[0]
        elif n.startswith('invariant.') or n.startswith('launder.') or n.startswith('strip.'):
            if dst is not None: fr.regs[dst] = A[-1] if n.startswith(('launder.', 'strip.')) else 0
        elif n.startswith('objectsize.'): fr.regs[dst] = mask(-1, rw)
        elif n.startswith('is.constant.'): fr.regs[dst] = 0
        elif n == 'stacksave': fr.regs[dst] = 0
        elif n == 'stackrestore': pass
        elif n.startswith('prefetch'): pass
        else: raise Err('intrinsic ' + nm)

    # ---------------- results
    def model_inputs(s, st, extra=None):
        """concrete values of this path's inputs under some model of its path condition (None if infeasible)"""
        if s.concrete_inputs is not None:
            return [(k, v, w) for (k, v, w) in st.inputs]
        m = s.sol.model(st.pc, extra)
        if m is None: return None
        out = []
        for kind, v, w in st.inputs:
            if kind == 'choice': out.append(('choice', v, w))
            else: out.append(('sym', v if isc(v) else m.eval(v, model_completion=True).as_long(), w))
        s.last_model = m
        return out

    def eval_events(s, st):
        """events with symbolic payloads evaluated under the last model"""
        m = getattr(s, 'last_model', None); out = []
        for tag, v in st.events:
            if type(tag) is str: out.append([tag, v]); continue
            if not isc(tag): tag = m.eval(s.z(tag, 32), model_completion=True).as_long()
            if not isc(v): v = m.eval(s.z(v, 64), model_completion=True).as_long()
            out.append([tag, v])
        return out
