#!/usr/bin/env python3
import sys, os, json, argparse
sys.path.insert(0, os.path.dirname(os.path.abspath(__file__)))
import driver, props

def main():
    ap = argparse.ArgumentParser()
    ap.add_argument('pid'); ap.add_argument('--tier', default=os.environ.get('VERIF_TIER', 'quick'), choices=['quick', 'thorough'])
    ap.add_argument('--replay'); ap.add_argument('--jobs', help='comma separated job names (debug)')
    a = ap.parse_args()
    seed = int(os.environ.get('VERIF_SEED', '0') or 0)
    if a.replay: sys.exit(replay(a.pid, a.replay))
    spec = props.P[a.pid]
    if a.jobs:
        spec = dict(spec); spec['jobs'] = [j for j in spec['jobs'] if j['name'] in a.jobs.split(',')]
    sys.exit(driver.check(a.pid, a.tier, spec, seed))

def replay(pid, path):
    """rebuild the native harness from /repo's current tree and re-run the recorded counterexample inputs"""
    c = json.load(open(path))
    outdir = os.path.join(driver.OUT, pid + '-replay'); os.makedirs(outdir, exist_ok=True)
    spec = props.P[pid]; job = [j for j in spec['jobs'] if j['name'] == c['job'].split('@')[0]][0]
    exe, _ = driver.compile_native(c['tu'], c['defs'], outdir, bool(job.get('clock')))
    f = os.path.join(outdir, 'replay.in'); driver.write_inputs(f, [tuple(x) for x in c['inputs']])
    r = driver.run_native(exe, c['entry'], f)
    print(json.dumps(r, indent=1))
    bad = r['rc'] != 0
    print('REPRODUCED' if bad else 'NOT REPRODUCED')
    return 1 if bad else 0

if __name__ == '__main__': main()
