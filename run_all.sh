#!/bin/bash
# runs every registered check of one tier and prints a one-line summary per property
cd "$(dirname "$0")"; mkdir -p out; TIER=${1:-quick}; shift
IDS=${@:-$(python3 -c "import json; print(' '.join(c['property_id'] for c in json.load(open('MANIFEST.json'))['checks']))")}
for id in $IDS; do
  s=$(date +%s); ./check $id --tier $TIER > out/$id.$TIER.stdout 2> out/$id.$TIER.stderr; rc=$?; e=$(date +%s)
  echo "$id rc=$rc wall=$((e-s))s $(grep -c '^VIOLATION' out/$id.$TIER.stdout) violation(s) $(grep -c '^KNOWN-FINDING' out/$id.$TIER.stdout) known $(grep -c '^BROKEN' out/$id.$TIER.stderr) broken"
done
