// shadow of <boost/asio/basic_stream_socket.hpp>: a stream socket under the real name whose I/O is completed by the harness
#ifndef VK_SHADOW_BASIC_STREAM_SOCKET_HPP
#define VK_SHADOW_BASIC_STREAM_SOCKET_HPP
#include "vk_world.hpp"
#include <boost/asio/socket_base.hpp>
namespace boost { namespace asio {
template <class Protocol, class Executor = any_io_executor>
class basic_stream_socket : public socket_base {
public:
  using executor_type = Executor;
  using protocol_type = Protocol;
  using endpoint_type = typename Protocol::endpoint;
  using lowest_layer_type = basic_stream_socket;
  template <class Ex> explicit basic_stream_socket(const Ex& ex) : _ex(ex), _r(new vk::sock_rec()) { _r->id = (int)vk::world().socks.size(); vk::world().socks.push_back(_r); }
  basic_stream_socket(basic_stream_socket&& o) : _ex(std::move(o._ex)), _r(o._r) { o._r = nullptr; }
  basic_stream_socket(const basic_stream_socket&) = delete;
  ~basic_stream_socket() { if (_r) { boost::system::error_code ec; close(ec); } }
  executor_type get_executor() const noexcept { return _ex; }
  lowest_layer_type& lowest_layer() { return *this; }
  void open(const protocol_type&, boost::system::error_code& ec) { _r->open = true; ec = {}; }
  bool is_open() const { return _r->open; }
  template <class Opt> void set_option(const Opt&, boost::system::error_code& ec) { ec = {}; }
  void close(boost::system::error_code& ec) { ec = {}; vk::sock_abort_ops(_r); _r->open = false; _r->connected = false; }
  void cancel(boost::system::error_code& ec) { ec = {}; vk::sock_abort_ops(_r); }
  void cancel() { vk::sock_abort_ops(_r); }
  // after shutdown(both) a pending read ends with eof, later reads report eof and writes a broken pipe (as a TCP socket does)
  void shutdown(shutdown_type, boost::system::error_code& ec) {
    ec = {}; _r->shut = true;
    if (_r->h_read) { _r->rbuf = nullptr; vk::post_completion(std::move(_r->h_read), boost::system::error_code(error::eof), std::size_t(0)); }
  }
  endpoint_type remote_endpoint(boost::system::error_code& ec) const { ec = _r->connected ? boost::system::error_code{} : boost::system::error_code(error::not_connected); return _ep; }
  template <class Token> auto async_connect(const endpoint_type& ep, Token&& token) {
    return async_initiate<Token, void(boost::system::error_code)>(
      [this, ep](auto handler) {
        vk::world_t& w = vk::world(); vk::sock_rec* r = _r;
        w.connect_attempts++; if (vk::count_pending_connects() > 0) w.overlapping_connects++;
        _ep = ep;
        auto slot = get_associated_cancellation_slot(handler);
        r->h_connect = any_completion_handler<void(boost::system::error_code)>(std::move(handler));
        if (slot.is_connected()) slot.assign([r](cancellation_type_t) { if (r->h_connect) vk::post_completion(std::move(r->h_connect), boost::system::error_code(error::operation_aborted)); });
      }, token);
  }
  template <class MB, class Token> auto async_read_some(const MB& buffers, Token&& token) {
    return async_initiate<Token, void(boost::system::error_code, std::size_t)>(
      [this](auto handler, const MB& buffers) {
        vk::sock_rec* r = _r;
        mutable_buffer b = *buffer_sequence_begin(buffers);
        if (!r->open || !r->connected) { vk::post_completion(std::move(handler), boost::system::error_code(error::not_connected), std::size_t(0)); return; }
        if (r->shut) { vk::post_completion(std::move(handler), boost::system::error_code(error::eof), std::size_t(0)); return; }
        if (r->broken) { vk::post_completion(std::move(handler), r->broken, std::size_t(0)); return; }
        // a request to read 0 bytes on a stream socket is a no-op that completes at once (as reactive_socket_service does)
        if (buffer_size(buffers) == 0) { vk::post_completion(std::move(handler), boost::system::error_code{}, std::size_t(0)); return; }
        auto slot = get_associated_cancellation_slot(handler);
        r->rbuf = static_cast<char*>(b.data()); r->rcap = b.size();
        r->h_read = any_completion_handler<void(boost::system::error_code, std::size_t)>(std::move(handler));
        if (slot.is_connected()) slot.assign([r](cancellation_type_t) { if (r->h_read) { r->rbuf = nullptr; vk::post_completion(std::move(r->h_read), boost::system::error_code(error::operation_aborted), std::size_t(0)); } });
      }, token, buffers);
  }
  template <class CB, class Token> auto async_write_some(const CB& buffers, Token&& token) {
    return async_initiate<Token, void(boost::system::error_code, std::size_t)>(
      [this](auto handler, const CB& buffers) {
        vk::world_t& w = vk::world(); vk::sock_rec* r = _r;
        if (!r->open || !r->connected) { vk::post_completion(std::move(handler), boost::system::error_code(error::not_connected), std::size_t(0)); return; }
        if (r->shut || r->broken) { vk::post_completion(std::move(handler), boost::system::error_code(error::broken_pipe), std::size_t(0)); return; }
        if (buffer_size(buffers) == 0) { vk::post_completion(std::move(handler), boost::system::error_code{}, std::size_t(0)); return; }
        r->wdata.clear(); r->delivered_early = false;
        for (auto it = buffer_sequence_begin(buffers); it != buffer_sequence_end(buffers); ++it) {
          const_buffer b = *it; r->wdata.append(static_cast<const char*>(b.data()), b.size());
        }
        r->writes++; w.writes_started++;
        auto slot = get_associated_cancellation_slot(handler);
        r->h_write = any_completion_handler<void(boost::system::error_code, std::size_t)>(std::move(handler));
        if (slot.is_connected()) slot.assign([r](cancellation_type_t) { if (r->h_write) vk::post_completion(std::move(r->h_write), boost::system::error_code(error::operation_aborted), std::size_t(0)); });
      }, token, buffers);
  }
  vk::sock_rec* vk_rec() const { return _r; }
private:
  Executor _ex; vk::sock_rec* _r; endpoint_type _ep {};
};
}}
#endif
