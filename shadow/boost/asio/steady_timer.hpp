// shadow of <boost/asio/steady_timer.hpp>: a timer under the real name whose expiry is decided by the harness (virtual time)
#ifndef VK_SHADOW_STEADY_TIMER_HPP
#define VK_SHADOW_STEADY_TIMER_HPP
#include "vk_world.hpp"
#include <chrono>
namespace boost { namespace asio {
class steady_timer {
public:
  using executor_type = any_io_executor;
  using clock_type = std::chrono::steady_clock;
  using duration = clock_type::duration;
  using time_point = clock_type::time_point;
  template <class Ex> explicit steady_timer(const Ex& ex) : _ex(ex), _r(new vk::timer_rec()) { _r->id = (int)vk::world().timers.size(); vk::world().timers.push_back(_r); }
  steady_timer(steady_timer&& o) : _ex(std::move(o._ex)), _r(o._r) { o._r = nullptr; }
  steady_timer(const steady_timer&) = delete;
  ~steady_timer() { if (_r) { vk::timer_cancel(_r); _r->id = -2 - _r->id; } }   // record stays (harness may inspect), marked dead
  executor_type get_executor() const noexcept { return _ex; }
  std::size_t expires_after(const duration& d) {
    std::size_t n = cancel();
    int64_t ns = std::chrono::duration_cast<std::chrono::nanoseconds>(d).count(); _r->dur_ns = ns;
    bool mx; int64_t ms = vk::clamp_ms(ns, mx);
    _r->dur_ms = ms; _r->max_wait = mx; _r->deadline_ms = mx ? INT64_MAX : vk_now_ms + ms;
    return n;
  }
  std::size_t cancel() { if (!_r->h) return 0; vk::timer_cancel(_r); return 1; }
  template <class Token> auto async_wait(Token&& token) {
    return async_initiate<Token, void(boost::system::error_code)>(
      [this](auto handler) {
        auto slot = get_associated_cancellation_slot(handler);
        vk::timer_rec* r = _r;
        r->h = any_completion_handler<void(boost::system::error_code)>(std::move(handler));
        r->armed = true; r->arm_count++;
        if (slot.is_connected()) slot.assign([r](cancellation_type_t) { vk::timer_cancel(r); });
      }, token);
  }
  vk::timer_rec* vk_rec() const { return _r; }
private:
  any_io_executor _ex; vk::timer_rec* _r;
};
}}
#endif
