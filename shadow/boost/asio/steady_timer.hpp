// shadow of <boost/asio/steady_timer.hpp>: harness-controlled timer under the real name
#ifndef VK_SHADOW_STEADY_TIMER_HPP
#define VK_SHADOW_STEADY_TIMER_HPP
#include <boost/asio/async_result.hpp>
#include <boost/asio/any_completion_handler.hpp>
#include <boost/asio/any_io_executor.hpp>
#include <boost/asio/error.hpp>
#include <boost/asio/post.hpp>
#include <boost/asio/prepend.hpp>
#include <boost/asio/associated_cancellation_slot.hpp>
#include <boost/system/error_code.hpp>
#include <chrono>
extern "C" { extern long vk_timer_last_ms; extern int vk_timer_armed; }
namespace boost { namespace asio {
class steady_timer {
public:
  using executor_type = any_io_executor;
  using clock_type = std::chrono::steady_clock;
  using duration = clock_type::duration;
  using time_point = clock_type::time_point;
  template <class Ex> explicit steady_timer(const Ex& ex) : _ex(ex) {}
  steady_timer(steady_timer&&) = default;
  executor_type get_executor() const noexcept { return _ex; }
  std::size_t expires_after(const duration& d) { _d = d; vk_timer_last_ms = std::chrono::duration_cast<std::chrono::milliseconds>(d).count(); return cancel(); }
  std::size_t cancel() {
    if (!_h) return 0;
    auto h = std::move(_h);
    asio::post(_ex, asio::prepend(std::move(h), boost::system::error_code(asio::error::operation_aborted)));
    return 1;
  }
  bool fire() { if (!_h) return false; auto h = std::move(_h); asio::post(_ex, asio::prepend(std::move(h), boost::system::error_code{})); return true; }
  template <class Token> auto async_wait(Token&& token) {
    return asio::async_initiate<Token, void(boost::system::error_code)>(
      [this](auto handler) {
        auto slot = asio::get_associated_cancellation_slot(handler);
        _h = any_completion_handler<void(boost::system::error_code)>(std::move(handler));
        vk_timer_armed++;
        if (slot.is_connected()) slot.assign([this](cancellation_type_t) { this->cancel(); });
      }, token);
  }
private:
  any_io_executor _ex; duration _d {}; any_completion_handler<void(boost::system::error_code)> _h;
};
}}
#endif
