// shadow of <boost/asio/ip/tcp.hpp>: protocol, endpoint, resolver and socket under the real names, completed by the harness
#ifndef VK_SHADOW_IP_TCP_HPP
#define VK_SHADOW_IP_TCP_HPP
#include "vk_world.hpp"
#include <boost/asio/basic_stream_socket.hpp>
#include <boost/asio/socket_base.hpp>
#include <boost/asio/steady_timer.hpp>
#include <ostream>
namespace boost { namespace asio { namespace ip {
class address {
public:
  std::string to_string() const { return "0.0.0.0"; }
  friend bool operator==(const address&, const address&) { return true; }
};
class tcp {
public:
  class endpoint {
  public:
    using protocol_type = tcp;
    endpoint() = default;
    explicit endpoint(int idx) : _idx(idx) {}
    tcp protocol() const { return tcp::v4(); }
    ip::address address() const { return {}; }
    unsigned short port() const { return (unsigned short)_idx; }
    int vk_index() const { return _idx; }
    friend bool operator==(const endpoint& a, const endpoint& b) { return a._idx == b._idx; }
    friend bool operator!=(const endpoint& a, const endpoint& b) { return a._idx != b._idx; }
    template <class C, class T> friend std::basic_ostream<C, T>& operator<<(std::basic_ostream<C, T>& os, const endpoint&) { return os; }
  private:
    int _idx = -1;
  };
  static tcp v4() noexcept { return tcp(4); }
  static tcp v6() noexcept { return tcp(6); }
  friend bool operator==(const tcp& a, const tcp& b) { return a._f == b._f; }
  friend bool operator!=(const tcp& a, const tcp& b) { return a._f != b._f; }
  using socket = basic_stream_socket<tcp>;
  using no_delay = socket_base::reuse_address;    // any boolean option type: the stub ignores options

  struct resolver_entry { tcp::endpoint ep; tcp::endpoint endpoint() const { return ep; } std::string host_name() const { return {}; } std::string service_name() const { return {}; } };
  class results_iterator {
  public:
    results_iterator() = default;
    results_iterator(std::shared_ptr<std::vector<resolver_entry>> v, std::size_t i) : _v(std::move(v)), _i(i) { normalise(); }
    const resolver_entry& operator*() const { return (*_v)[_i]; }
    const resolver_entry* operator->() const { return &(*_v)[_i]; }
    results_iterator& operator++() { ++_i; normalise(); return *this; }
    results_iterator operator++(int) { auto t = *this; ++*this; return t; }
    friend bool operator==(const results_iterator& a, const results_iterator& b) { return a._v == b._v && a._i == b._i; }
    friend bool operator!=(const results_iterator& a, const results_iterator& b) { return !(a == b); }
  private:
    void normalise() { if (_v && _i >= _v->size()) { _v.reset(); _i = 0; } }     // the end iterator equals a default-constructed one, as in Asio
    std::shared_ptr<std::vector<resolver_entry>> _v; std::size_t _i = 0;
  };
  class results_type {
  public:
    using const_iterator = results_iterator; using iterator = results_iterator; using value_type = resolver_entry;
    results_type() = default;
    explicit results_type(int n, int base) : _v(std::make_shared<std::vector<resolver_entry>>()) { for (int i = 0; i < n; i++) _v->push_back({endpoint(base + i)}); }
    const_iterator begin() const { return _v ? const_iterator(_v, 0) : const_iterator(); }
    const_iterator end() const { return const_iterator(); }
    const_iterator cbegin() const { return begin(); }
    const_iterator cend() const { return end(); }
    std::size_t size() const { return _v ? _v->size() : 0; }
    bool empty() const { return size() == 0; }
  private:
    std::shared_ptr<std::vector<resolver_entry>> _v;
  };
  class resolver {
  public:
    using executor_type = any_io_executor;
    using results_type = tcp::results_type;
    template <class Ex> explicit resolver(const Ex& ex) : _ex(ex), _r(new vk::resolver_rec()) { vk::world().resolvers.push_back(_r); }
    resolver(const resolver&) = delete;
    executor_type get_executor() noexcept { return _ex; }
    void cancel() { if (_r->h) vk::post_completion(std::move(_r->h), boost::system::error_code(error::operation_aborted), 0); }
    template <class Token> auto async_resolve(std::string host, std::string port, Token&& token) {
      return async_initiate<Token, void(boost::system::error_code, results_type)>(
        [this](auto handler, std::string host, std::string port) {
          vk::resolver_rec* r = _r; r->host = std::move(host); r->port = std::move(port); r->calls++;
          auto slot = get_associated_cancellation_slot(handler);
          int base = r->calls * 16;
          r->h = any_completion_handler<void(boost::system::error_code, int)>(
            [h = std::move(handler), base](boost::system::error_code ec, int n) mutable { std::move(h)(ec, ec ? results_type() : results_type(n, base)); });
          if (slot.is_connected()) slot.assign([r](cancellation_type_t) { if (r->h) vk::post_completion(std::move(r->h), boost::system::error_code(error::operation_aborted), 0); });
        }, token, std::move(host), std::move(port));
    }
  private:
    any_io_executor _ex; vk::resolver_rec* _r;
  };
private:
  explicit tcp(int f) : _f(f) {}
  int _f;
};
}}}
#endif
