// A layered (non-basic-socket) stream for the real client: one layer above the shadow TCP socket, as asio::ssl::stream or
// beast::websocket::stream are, without their handshakes. With it the library takes the paths reserved for layered streams:
// shutdown_op acquiring the connection lock, swapping in a fresh stream and calling async_shutdown(stream) raced against a 5 s
// timer. async_shutdown is completed by the harness (or never: then the timer ends it).
#ifndef VK_LAYERED_HPP
#define VK_LAYERED_HPP
#include <boost/asio/ip/tcp.hpp>
namespace vk {
struct shutdown_rec { asio::any_completion_handler<void(error_code)> h; int calls = 0; };
inline std::vector<shutdown_rec*>& shutdowns() { static auto* v = new std::vector<shutdown_rec*>(); return *v; }
inline shutdown_rec* pending_shutdown() { for (auto* r : shutdowns()) if (r->h) return r; return nullptr; }
inline void complete_shutdown(shutdown_rec* r, error_code ec) { post_completion(std::move(r->h), ec); }

class layered_stream {
public:
  using next_layer_type = asio::ip::tcp::socket;
  using executor_type = next_layer_type::executor_type;
  template <class Ex> explicit layered_stream(const Ex& ex) : _s(ex), _sd(new shutdown_rec()) { shutdowns().push_back(_sd); }
  layered_stream(const layered_stream&) = delete;
  ~layered_stream() { if (_sd->h) post_completion(std::move(_sd->h), error_code(asio::error::operation_aborted)); }
  executor_type get_executor() noexcept { return _s.get_executor(); }
  next_layer_type& next_layer() { return _s; }
  const next_layer_type& next_layer() const { return _s; }
  template <class MB, class Token> auto async_read_some(const MB& b, Token&& t) { return _s.async_read_some(b, std::forward<Token>(t)); }
  template <class CB, class Token> auto async_write_some(const CB& b, Token&& t) { return _s.async_write_some(b, std::forward<Token>(t)); }
  shutdown_rec* vk_shutdown() const { return _sd; }
private:
  next_layer_type _s; shutdown_rec* _sd;
};
// found by argument-dependent lookup from boost::mqtt5::detail (shutdown_op, connect_op)
template <class Handler> void async_shutdown(layered_stream& s, Handler&& handler) {
  shutdown_rec* r = s.vk_shutdown(); r->calls++;
  auto slot = asio::get_associated_cancellation_slot(handler);
  r->h = asio::any_completion_handler<void(error_code)>(std::forward<Handler>(handler));
  if (slot.is_connected()) slot.assign([r](asio::cancellation_type_t) { if (r->h) post_completion(std::move(r->h), error_code(asio::error::operation_aborted)); });
}
} // namespace vk
#endif
