// The harness-controlled world behind the shadow headers: FIFO executor, virtual clock, timers, sockets, resolver.
// Everything here is environment; the library code above it is the real one from /repo/include.
#ifndef VK_WORLD_HPP
#define VK_WORLD_HPP
#include "vk_api.h"
#include <boost/asio/execution.hpp>
#include <boost/asio/execution_context.hpp>
#include <boost/asio/any_io_executor.hpp>
#include <boost/asio/any_completion_handler.hpp>
#include <boost/asio/associated_cancellation_slot.hpp>
#include <boost/asio/async_result.hpp>
#include <boost/asio/buffer.hpp>
#include <boost/asio/error.hpp>
#include <boost/asio/post.hpp>
#include <boost/asio/prepend.hpp>
#include <boost/system/error_code.hpp>
#include <cstdint>
#include <cstring>
#include <memory>
#include <string>
#include <utility>
#include <vector>

// virtual clock (milliseconds); also read by the engines' model of std::chrono::system_clock/steady_clock::now()
extern "C" { inline int64_t vk_now_ms = 0; }

namespace vk {
namespace asio = boost::asio;
using error_code = boost::system::error_code;

// ---------------------------------------------------------------- executor: one global FIFO of ready handlers
struct node { void (*run)(node*); void (*drop)(node*); node* next; };
struct world_t;
world_t& world();

template <class F> struct node_impl : node {
  F f;
  explicit node_impl(F&& ff) : f(std::move(ff)) { run = &do_run; drop = &do_drop; next = nullptr; }
#ifdef VK_TRACE
  static void do_run(node* n) { static int cnt = 0; if (++cnt > 40 && cnt < 60) fprintf(stderr, "H %.900s\n", __PRETTY_FUNCTION__); do_run2(n); }
#else
  static void do_run(node* n) { do_run2(n); }
#endif
  static void do_run2(node* n) { auto* self = static_cast<node_impl*>(n); F g(std::move(self->f)); delete self; std::move(g)(); }
  static void do_drop(node* n) { delete static_cast<node_impl*>(n); }
};

struct context : asio::execution_context { context() {} ~context() { shutdown(); destroy(); } };

struct executor {
  asio::execution_context& query(asio::execution::context_t) const noexcept;
#ifdef VK_INLINE_DISPATCH
  // as io_context's executor: blocking.possibly by default, so that a function submitted from inside a running handler without
  // requiring blocking.never (asio::dispatch, completion of composed operations) runs at once, inside the caller
  bool never_ = false;
  asio::execution::blocking_t query(asio::execution::blocking_t) const noexcept { return never_ ? asio::execution::blocking_t(asio::execution::blocking.never) : asio::execution::blocking_t(asio::execution::blocking.possibly); }
  executor require(asio::execution::blocking_t::never_t) const noexcept { executor e = *this; e.never_ = true; return e; }
  executor require(asio::execution::blocking_t::possibly_t) const noexcept { executor e = *this; e.never_ = false; return e; }
#else
  static constexpr asio::execution::blocking_t query(asio::execution::blocking_t) noexcept { return asio::execution::blocking.never; }
  executor require(asio::execution::blocking_t::never_t) const noexcept { return *this; }
  executor require(asio::execution::blocking_t::possibly_t) const noexcept { return *this; }
#endif
  static constexpr asio::execution::outstanding_work_t query(asio::execution::outstanding_work_t) noexcept { return asio::execution::outstanding_work.untracked; }
  executor require(asio::execution::outstanding_work_t::tracked_t) const noexcept { return *this; }
  executor require(asio::execution::outstanding_work_t::untracked_t) const noexcept { return *this; }
  static constexpr asio::execution::relationship_t query(asio::execution::relationship_t) noexcept { return asio::execution::relationship.fork; }
  executor require(asio::execution::relationship_t::fork_t) const noexcept { return *this; }
  executor require(asio::execution::relationship_t::continuation_t) const noexcept { return *this; }
  template <class A> executor require(asio::execution::allocator_t<A>) const noexcept { return *this; }
  template <class F> void execute(F&& f) const;
  friend bool operator==(const executor&, const executor&) noexcept { return true; }
  friend bool operator!=(const executor&, const executor&) noexcept { return false; }
};

// ---------------------------------------------------------------- timers (virtual time, milliseconds)
struct timer_rec {
  int id = -1; bool armed = false; bool max_wait = false; int64_t dur_ms = 0; int64_t dur_ns = 0; int64_t deadline_ms = 0;
  int arm_count = 0; int cancel_count = 0;
  asio::any_completion_handler<void(error_code)> h;
};
// ---------------------------------------------------------------- sockets
struct sock_rec {
  int id = -1; bool open = false; bool connected = false; bool shut = false; int conn_epoch = -1;
  error_code broken;            // set once an operation failed with a transport error: the connection is gone, later I/O fails too
  asio::any_completion_handler<void(error_code)> h_connect;
  asio::any_completion_handler<void(error_code, std::size_t)> h_read; char* rbuf = nullptr; std::size_t rcap = 0;
  asio::any_completion_handler<void(error_code, std::size_t)> h_write; std::string wdata; int writes = 0; bool delivered_early = false;
};
struct resolver_rec { asio::any_completion_handler<void(error_code, int)> h; std::string host, port; int calls = 0; };

struct world_t {
  node* q_head = nullptr; node** q_tail = &q_head; int q_len = 0;
  context ctx;
  std::vector<timer_rec*> timers;
  std::vector<sock_rec*> socks;
  std::vector<resolver_rec*> resolvers;
  int connect_attempts = 0; int overlapping_connects = 0; int writes_started = 0;
  int handlers_run = 0; int depth = 0;   // depth > 0 while a handler is executing
  int inline_runs = 0;
};

inline world_t& world() { static world_t* w = new world_t(); return *w; }
inline asio::execution_context& executor::query(asio::execution::context_t) const noexcept { return world().ctx; }
template <class F> void executor::execute(F&& f) const {
  using FT = std::decay_t<F>;
#ifdef VK_INLINE_DISPATCH
  if (!never_ && world().depth > 0) { FT g(std::forward<F>(f)); world().inline_runs++; std::move(g)(); return; }
#endif
  auto* n = new node_impl<FT>(FT(std::forward<F>(f)));
  world_t& w = world(); *w.q_tail = n; w.q_tail = &n->next; w.q_len++;
}

inline bool run_one() {
  world_t& w = world();
  if (!w.q_head) return false;
  node* n = w.q_head; w.q_head = n->next; if (!w.q_head) w.q_tail = &w.q_head; w.q_len--;
  w.handlers_run++; w.depth++; n->run(n); w.depth--; return true;
}
// run handlers until the queue is empty; a queue that never empties is a livelock (e.g. zero-length reads issued forever)
inline int drain(int limit = 1500) { int k = 0; while (k < limit && run_one()) k++; vk_assert(k < limit, "livelock: the handler queue does not drain (busy loop without progress)"); return k; }

template <class H, class... Args> void post_completion(H&& h, Args&&... args) {
  asio::post(executor{}, asio::prepend(std::forward<H>(h), std::forward<Args>(args)...));
}

// ---- timer control (used by the shadow steady_timer and by harnesses)
inline int64_t clamp_ms(int64_t ns_count, bool& is_max) {
  is_max = ns_count == INT64_MAX; return ns_count / 1000000;
}
inline void timer_cancel(timer_rec* t) {
  if (!t->h) return;
  t->armed = false; t->cancel_count++;
  post_completion(std::move(t->h), error_code(asio::error::operation_aborted));
}
// the armed timer(s) with the earliest deadline may fire; firing advances virtual time to that deadline
inline bool timer_can_fire(const timer_rec* t) {
  if (!t->armed || t->max_wait) return false;
  for (auto* o : world().timers) if (o->armed && !o->max_wait && o->deadline_ms < t->deadline_ms) return false;
  return true;
}
inline void timer_fire(timer_rec* t) {
  world_t& w = world();
  if (t->deadline_ms > vk_now_ms) vk_now_ms = t->deadline_ms;
  t->armed = false;
  post_completion(std::move(t->h), error_code{});
}

// ---- socket control
inline void sock_abort_ops(sock_rec* s) {
  if (s->h_connect) post_completion(std::move(s->h_connect), error_code(asio::error::operation_aborted));
  if (s->h_read) { s->rbuf = nullptr; post_completion(std::move(s->h_read), error_code(asio::error::operation_aborted), std::size_t(0)); }
  if (s->h_write) post_completion(std::move(s->h_write), error_code(asio::error::operation_aborted), std::size_t(0));
}
inline sock_rec* pending_connect() { for (auto* s : world().socks) if (s->h_connect) return s; return nullptr; }
inline sock_rec* pending_read() { for (auto* s : world().socks) if (s->h_read) return s; return nullptr; }
// (a write still in flight on a connection that already failed is out of the harness's reach: it ends when the client closes that socket)
inline sock_rec* pending_write() { for (auto* s : world().socks) if (s->h_write && !s->broken) return s; return nullptr; }
inline int count_pending_connects() { int n = 0; for (auto* s : world().socks) if (s->h_connect) n++; return n; }
inline void complete_connect(sock_rec* s, error_code ec) {
  if (!ec) { s->connected = true; s->conn_epoch = world().connect_attempts; }
  post_completion(std::move(s->h_connect), ec);
}
// deliver n bytes (n <= capacity of the pending read) or an error to the pending read
inline std::size_t complete_read(sock_rec* s, const char* data, std::size_t n, error_code ec) {
  if (n > s->rcap) n = s->rcap;
  if (n) std::memcpy(s->rbuf, data, n);
  s->rbuf = nullptr; if (ec) s->broken = ec;
  post_completion(std::move(s->h_read), ec, n);
  return n;
}
inline void complete_write(sock_rec* s, std::size_t n, error_code ec) {
  if (ec) s->broken = ec;
  post_completion(std::move(s->h_write), ec, n);
}
inline resolver_rec* pending_resolve() { for (auto* r : world().resolvers) if (r->h) return r; return nullptr; }
inline void complete_resolve(resolver_rec* r, error_code ec, int n_endpoints) { post_completion(std::move(r->h), ec, n_endpoints); }

} // namespace vk
#endif
